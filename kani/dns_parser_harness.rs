// Kani harnesses for loop-free integer functions of src/dns_parser.rs.
// Injected into a throw-away copy of /repo as `mod verif_kani` (child of dns_parser, so private
// items are visible).  Every property body lives in a plain `check_*` function so that the same
// code can be replayed with concrete values by an ordinary #[test].
use super::*;

fn mk_record(created: u64, ttl: u32, expires: u64, refresh: u64) -> DnsRecord {
    DnsRecord {
        entry: DnsEntry::new(String::new(), RRType::A, CLASS_IN),
        ttl,
        created,
        expires,
        refresh,
        new_name: None,
    }
}

const T62: u64 = 1u64 << 62;

/// created + ttl * pct * 10 in the same operation order as the code, so that the SAT back end can
/// match the two multiplier circuits structurally (a u128 or `ttl * 1000` spelling costs minutes).
fn at(created: u64, ttl: u32, pct: u32) -> u64 {
    created.wrapping_add((ttl as u64).wrapping_mul(pct as u64).wrapping_mul(10))
}

pub(crate) fn check_get_expiration_time(created: u64, ttl: u32, percent: u32) {
    if created < T62 && percent <= 100 {
        let r = get_expiration_time(created, ttl, percent);
        assert!(r == at(created, ttl, percent));
        assert!(r >= created); // no wrap-around for any u32 TTL
    }
}

pub(crate) fn check_is_expired(created: u64, ttl: u32, now: u64) {
    if created < T62 {
        let r = mk_record(created, ttl, get_expiration_time(created, ttl, 100), get_expiration_time(created, ttl, 80));
        // used until T+t and never after
        assert!(r.is_expired(now) == (now >= at(created, ttl, 100)));
        assert!(r.refresh_due(now) == (now >= at(created, ttl, 80)));
        if now < T62 {
            assert!(r.expires_soon(now) == (now + 1000 >= at(created, ttl, 100)));
        }
        assert!(r.halflife_passed(now) == (now > at(created, ttl, 50)));
    }
}

/// One step of the refresh chain from an arbitrary mark.
pub(crate) fn check_refresh_maybe(created: u64, ttl16: u16, mark: u8, now: u64) {
    let ttl = ttl16 as u32; // bounded: 16-bit TTL keeps the multiplier comparisons tractable for SAT
    if created < T62 && ttl >= 1 && mark < 5 {
        let pct = [80u32, 85, 90, 95, 100][mark as usize];
        let expires = get_expiration_time(created, ttl, 100);
        let refresh = get_expiration_time(created, ttl, pct);
        let mut r = mk_record(created, ttl, expires, refresh);
        let fired = r.refresh_maybe(now);
        // fires iff due and not expired
        assert!(fired == (now < expires && now >= refresh));
        if fired {
            // never at/after expiry; moves to the next mark
            assert!(mark < 4);
            let next = [85u32, 90, 95, 100][mark as usize];
            assert!(r.get_refresh_time() == at(created, ttl, next));
        } else {
            assert!(r.get_refresh_time() == refresh);
        }
        assert!(r.get_expire_time() == expires && r.get_created() == created && r.get_ttl() == ttl);
    }
}

pub(crate) fn check_reset_ttl(created: u64, ttl: u32, c2: u64, t2: u32) {
    if created < T62 && c2 < T62 {
        let mut r = mk_record(created, ttl, get_expiration_time(created, ttl, 100), get_expiration_time(created, ttl, 95));
        let other = mk_record(c2, t2, get_expiration_time(c2, t2, 100), get_expiration_time(c2, t2, 80));
        r.reset_ttl(&other);
        assert!(r.get_created() == c2 && r.get_ttl() == t2);
        assert!(r.get_expire_time() == at(c2, t2, 100));
        if t2 > 1 {
            assert!(r.get_refresh_time() == at(c2, t2, 80));
        } else {
            assert!(r.get_refresh_time() == r.get_expire_time());
        }
    }
}

/// No panic (underflow) for any time inside the record's life; TTL 16 bits to keep the divider small (bounded).
pub(crate) fn check_remaining_ttl(created: u64, ttl16: u16, now: u64) {
    let ttl = ttl16 as u32;
    if created < T62 && now >= created && now <= at(created, ttl, 100) {
        let r = mk_record(created, ttl, get_expiration_time(created, ttl, 100), get_expiration_time(created, ttl, 80));
        let rem = r.get_remaining_ttl(now);
        assert!(rem <= ttl);
        let mut r2 = mk_record(created, ttl, r.get_expire_time(), r.get_refresh_time());
        r2.update_ttl(now);
        assert!(r2.get_ttl() <= ttl);
    }
}

pub(crate) fn check_dns_entry_new(class: u16) {
    let e = DnsEntry::new(String::new(), RRType::PTR, class);
    assert!(e.class == class & 0x7FFF);
    assert!(e.cache_flush == (class & 0x8000 != 0));
}

/// Known-answer suppression threshold on address records (fixed names).  The class fields are free: "same record"
/// means same class without regard to the cache-flush bit (a known answer never carries it, RFC 6762 10.2; K15).
pub(crate) fn check_suppressed_by_answer(my_ttl: u32, ka_ttl: u32, a: u32, b: u32, my_class: u16, ka_class: u16) {
    let mine = DnsAddress::new("h.local.", RRType::A, my_class, my_ttl,
        IpAddr::V4(Ipv4Addr::from(a)), InterfaceId::default());
    let theirs = DnsAddress::new("h.local.", RRType::A, ka_class, ka_ttl,
        IpAddr::V4(Ipv4Addr::from(b)), InterfaceId::default());
    let s = mine.suppressed_by_answer(&theirs);
    if a != b || (my_class & 0x7FFF) != (ka_class & 0x7FFF) {
        assert!(!s); // a different record never suppresses
    } else {
        if 2 * (ka_ttl as u64) > my_ttl as u64 { assert!(s); }
        if 2 * (ka_ttl as u64) < my_ttl as u64 { assert!(!s); }
    }
}

/// Simultaneous-probe comparison core (RFC 6762 8.2) on address records with fixed names: class first, then
/// type, then RDATA; and both sides reach opposite verdicts.
pub(crate) fn check_compare_address(class_a: u16, class_b: u16, a6: bool, b6: bool, ip_a: u32, ip_b: u32) {
    let mk = |class: u16, v6: bool, ip: u32| {
        let (ty, addr) = if v6 { (RRType::AAAA, IpAddr::V6(Ipv6Addr::from(ip as u128))) } else { (RRType::A, IpAddr::V4(Ipv4Addr::from(ip))) };
        DnsAddress::new("h.local.", ty, class, 120, addr, InterfaceId::default())
    };
    let a = mk(class_a, a6, ip_a);
    let b = mk(class_b, b6, ip_b);
    let ab = a.compare(&b);
    let ba = b.compare(&a);
    assert!(ab == ba.reverse()); // opposite verdicts
    let (ca, cb) = (class_a & 0x7FFF, class_b & 0x7FFF); // cache-flush bit excluded
    if ca != cb {
        assert!(ab == ca.cmp(&cb));
    } else if a6 != b6 {
        assert!(ab == (if a6 { cmp::Ordering::Greater } else { cmp::Ordering::Less })); // AAAA (28) > A (1)
    } else {
        assert!(ab == ip_a.cmp(&ip_b));
    }
}

/// Assumed by unit `tiebreak`: comparing the big-endian (wire) bytes of two u16 is their numeric order
/// (DnsSrv::compare_rdata spells its comparisons that way), and the derived Ord of RRType is the order of the
/// type codes.  Loop-free over all inputs: complete.
pub(crate) fn check_be_bytes_cmp(a: u16, b: u16) {
    assert!(a.to_be_bytes().cmp(&b.to_be_bytes()) == a.cmp(&b));
}
pub(crate) fn check_rrtype_cmp(a: u16, b: u16) {
    if let (Some(x), Some(y)) = (RRType::from_u16(a), RRType::from_u16(b)) {
        assert!(x as u16 == a && y as u16 == b);
        assert!(x.cmp(&y) == a.cmp(&b));
    }
}

/// Assumed contract of DnsOutPacket::parse_escaped_name (unit `encoder`): labels are non-empty, none longer
/// than the name's longest unescaped-dot-free run allows (here: than the name), wire size <= name length + 1.
/// Kani does not finish on symbolic strings (measured: 4 bytes > 120 s), so this is a BOUNDED stand-in by
/// exhaustive execution: every name of 0..=7 bytes over the alphabet { 'a', '.', '\\', 'é' }.
pub(crate) fn exec_parse_escaped_name_all() -> usize {
    let alpha = ["a", ".", "\\", "é"];
    let mut count = 0usize;
    let mut names: Vec<String> = vec![String::new()];
    for _len in 0..=7 {
        let mut next = Vec::new();
        for n in names.iter() {
            let labels = DnsOutPacket::parse_escaped_name(n);
            let mut wire = 0usize;
            for l in labels.iter() {
                assert!(!l.is_empty(), "empty label for {:?}", n);
                assert!(l.len() <= n.len(), "label longer than name for {:?}", n);
                wire += l.len() + 1;
            }
            assert!(wire <= n.len() + 1, "wire size {} for {:?}", wire, n);
            count += 1;
            if n.chars().count() < 7 {
                for a in alpha.iter() {
                    next.push(format!("{}{}", n, a));
                }
            }
        }
        names = next;
    }
    count
}

#[cfg(kani)]
mod proofs {
    use super::*;
    fn stub_now() -> u64 { let t: u64 = kani::any(); kani::assume(t < T62); t }
    #[kani::proof] fn kani_get_expiration_time() { check_get_expiration_time(kani::any(), kani::any(), kani::any()); }
    #[kani::proof] fn kani_is_expired() { check_is_expired(kani::any(), kani::any(), kani::any()); }
    #[kani::proof] fn kani_refresh_maybe_bounded_m0() { check_refresh_maybe(kani::any(), kani::any(), 0, kani::any()); }
    #[kani::proof] fn kani_refresh_maybe_bounded_m1() { check_refresh_maybe(kani::any(), kani::any(), 1, kani::any()); }
    #[kani::proof] fn kani_refresh_maybe_bounded_m2() { check_refresh_maybe(kani::any(), kani::any(), 2, kani::any()); }
    #[kani::proof] fn kani_refresh_maybe_bounded_m3() { check_refresh_maybe(kani::any(), kani::any(), 3, kani::any()); }
    #[kani::proof] fn kani_refresh_maybe_bounded_m4() { check_refresh_maybe(kani::any(), kani::any(), 4, kani::any()); }
    #[kani::proof] fn kani_reset_ttl() { check_reset_ttl(kani::any(), kani::any(), kani::any(), kani::any()); }
    #[kani::proof] fn kani_remaining_ttl_bounded() { check_remaining_ttl(kani::any(), kani::any(), kani::any()); }
    #[kani::proof] fn kani_dns_entry_new() { check_dns_entry_new(kani::any()); }
    #[kani::proof] #[kani::unwind(10)] #[kani::stub(crate::current_time_millis, stub_now)] fn kani_compare_address() { check_compare_address(kani::any(), kani::any(), kani::any(), kani::any(), kani::any(), kani::any()); }
    #[kani::proof] #[kani::unwind(4)] fn kani_be_bytes_cmp() { check_be_bytes_cmp(kani::any(), kani::any()); }
    #[kani::proof] fn kani_rrtype_cmp() { check_rrtype_cmp(kani::any(), kani::any()); }
    #[kani::proof] #[kani::unwind(10)] #[kani::stub(crate::current_time_millis, stub_now)] fn kani_suppressed_by_answer() { check_suppressed_by_answer(kani::any(), kani::any(), kani::any(), kani::any(), kani::any(), kani::any()); }
}
