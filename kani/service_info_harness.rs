// Kani harnesses for loop-free integer functions of src/service_info.rs (see dns_parser_harness.rs).
use super::*;
use if_addrs::{IfAddr, Ifv4Addr, Ifv6Addr};
use std::net::{IpAddr, Ipv4Addr, Ipv6Addr};

/// Subnet predicate, IPv4: same family and (addr & mask) == (ip & mask), for all u32 triples.
pub(crate) fn check_valid_ip_v4(addr: u32, ip: u32, mask: u32) {
    let ifa = IfAddr::V4(Ifv4Addr { ip: Ipv4Addr::from(ip), netmask: Ipv4Addr::from(mask), prefixlen: 0, broadcast: None });
    let r = valid_ip_on_intf(&IpAddr::V4(Ipv4Addr::from(addr)), &ifa);
    assert!(r == ((addr & mask) == (ip & mask)));
    // the other family never matches
    let r6 = valid_ip_on_intf(&IpAddr::V6(Ipv6Addr::from(addr as u128)), &ifa);
    assert!(!r6);
}

pub(crate) fn check_valid_ip_v6(addr: u128, ip: u128, mask: u128) {
    let ifa = IfAddr::V6(Ifv6Addr { ip: Ipv6Addr::from(ip), netmask: Ipv6Addr::from(mask), prefixlen: 0, broadcast: None });
    let r = valid_ip_on_intf(&IpAddr::V6(Ipv6Addr::from(addr)), &ifa);
    assert!(r == ((addr & mask) == (ip & mask)));
    let r4 = valid_ip_on_intf(&IpAddr::V4(Ipv4Addr::from(addr as u32)), &ifa);
    assert!(!r4);
}

/// BOUNDED stand-in by exhaustive execution for decode_txt_unique (its `Vec::retain` closure keeps state in a captured
/// HashSet: outside Verus; `HashSet::new` needs a syscall Kani cannot model): every TXT record of 0..=4 strings over
/// keys { a, A, b, c } x value { none, "", "1" } (22 621 records). Oracle taken from the statement: of the
/// properties decode_txt yields, exactly the first occurrence of each key (compared without regard to case), in order.
pub(crate) fn exec_decode_txt_unique_all() -> usize {
    let keys = ["a", "A", "b", "c"];
    let vals: [Option<&str>; 3] = [None, Some(""), Some("1")];
    let mut atoms: Vec<(String, Option<Vec<u8>>, Vec<u8>)> = Vec::new();
    for k in keys.iter() {
        for v in vals.iter() {
            let s = match v { None => k.to_string(), Some(x) => format!("{}={}", k, x) };
            atoms.push((k.to_string(), v.map(|x| x.as_bytes().to_vec()), s.into_bytes()));
        }
    }
    let mut count = 0usize;
    let mut seqs: Vec<Vec<usize>> = vec![Vec::new()];
    for _len in 0..=4 {
        let mut next = Vec::new();
        for sq in seqs.iter() {
            let mut txt = Vec::new();
            for &i in sq.iter() {
                txt.push(atoms[i].2.len() as u8);
                txt.extend_from_slice(&atoms[i].2);
            }
            let got = decode_txt_unique(&txt);
            let mut seen: Vec<String> = Vec::new();
            let mut exp: Vec<usize> = Vec::new();
            for &i in sq.iter() {
                let lk = atoms[i].0.to_lowercase();
                if !seen.contains(&lk) {
                    seen.push(lk);
                    exp.push(i);
                }
            }
            assert!(got.len() == exp.len(), "decode_txt_unique({:?}): {} properties, expected {}", sq, got.len(), exp.len());
            for (g, &i) in got.iter().zip(exp.iter()) {
                assert!(g.key() == atoms[i].0 && g.val().map(|v| v.to_vec()) == atoms[i].1, "decode_txt_unique({:?}): got {:?}", sq, g);
            }
            count += 1;
            if sq.len() < 4 {
                for i in 0..atoms.len() {
                    let mut n = sq.clone();
                    n.push(i);
                    next.push(n);
                }
            }
        }
        seqs = next;
    }
    count
}

// (Probe::new builds a HashSet, whose RandomState needs a getrandom syscall Kani cannot model; the Probe
// timing functions are proved by Verus in unit `records`.)

#[cfg(kani)]
mod proofs {
    use super::*;
    #[kani::proof] fn kani_valid_ip_v4() { check_valid_ip_v4(kani::any(), kani::any(), kani::any()); }
    #[kani::proof] fn kani_valid_ip_v6() { check_valid_ip_v6(kani::any(), kani::any(), kani::any()); }
}
