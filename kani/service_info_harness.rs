// Kani harnesses for loop-free integer functions of src/service_info.rs (see dns_parser_harness.rs).
use super::*;
use if_addrs::{IfAddr, Ifv4Addr, Ifv6Addr};
use std::net::{IpAddr, Ipv4Addr, Ipv6Addr};

/// Subnet predicate, IPv4: same family and (addr & mask) == (ip & mask), for all u32 triples.
pub(crate) fn check_valid_ip_v4(addr: u32, ip: u32, mask: u32) {
    let ifa = IfAddr::V4(Ifv4Addr { ip: Ipv4Addr::from(ip), netmask: Ipv4Addr::from(mask), prefixlen: 0, broadcast: None });
    let r = valid_ip_on_intf(&IpAddr::V4(Ipv4Addr::from(addr)), &ifa);
    assert!(r == ((addr & mask) == (ip & mask)));
    // the other family never matches
    let r6 = valid_ip_on_intf(&IpAddr::V6(Ipv6Addr::from(addr as u128)), &ifa);
    assert!(!r6);
}

pub(crate) fn check_valid_ip_v6(addr: u128, ip: u128, mask: u128) {
    let ifa = IfAddr::V6(Ifv6Addr { ip: Ipv6Addr::from(ip), netmask: Ipv6Addr::from(mask), prefixlen: 0, broadcast: None });
    let r = valid_ip_on_intf(&IpAddr::V6(Ipv6Addr::from(addr)), &ifa);
    assert!(r == ((addr & mask) == (ip & mask)));
    let r4 = valid_ip_on_intf(&IpAddr::V4(Ipv4Addr::from(addr as u32)), &ifa);
    assert!(!r4);
}

// (Probe::new builds a HashSet, whose RandomState needs a getrandom syscall Kani cannot model; the Probe
// timing functions are proved by Verus in unit `records`.)

#[cfg(kani)]
mod proofs {
    use super::*;
    #[kani::proof] fn kani_valid_ip_v4() { check_valid_ip_v4(kani::any(), kani::any(), kani::any()); }
    #[kani::proof] fn kani_valid_ip_v6() { check_valid_ip_v6(kani::any(), kani::any(), kani::any()); }
}
