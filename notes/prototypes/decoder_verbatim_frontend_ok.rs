use vstd::prelude::*;
use std::net::{IpAddr, Ipv4Addr, Ipv6Addr};
use std::convert::TryInto;
use std::str;
verus! {

#[verifier::external_type_specification]
#[verifier::external_body]
pub struct ExIpAddr(IpAddr);
#[verifier::external_type_specification]
#[verifier::external_body]
pub struct ExIpv4Addr(Ipv4Addr);
#[verifier::external_type_specification]
#[verifier::external_body]
pub struct ExIpv6Addr(Ipv6Addr);

#[verifier::external_type_specification]
#[verifier::external_body]
pub struct ExUtf8Error(core::str::Utf8Error);
#[verifier::external_type_specification]
#[verifier::external_body]
pub struct ExTryFromSliceError(core::array::TryFromSliceError);

pub assume_specification<T: Clone> [<[T]>::to_vec] (s: &[T]) -> (r: Vec<T>)
    ensures r@.len() == s@.len();

pub assume_specification [core::str::from_utf8] (v: &[u8]) -> (r: core::result::Result<&str, core::str::Utf8Error>)
    ensures r is Ok ==> r->Ok_0@.len() <= v@.len();

pub open spec fn be16(a: u8, b: u8) -> u16 { ((a as u16) * 256 + (b as u16)) as u16 }
#[verifier::external_body]
fn vx_u16_from_be_bytes(b: [u8; 2]) -> (r: u16) ensures r == be16(b[0], b[1]) { u16::from_be_bytes(b) }
#[verifier::external_body]
fn vx_u32_from_be_bytes(b: [u8; 4]) -> (r: u32) { u32::from_be_bytes(b) }

pub enum Error { Again, DaemonShutdown, Msg(String), ParseIpAddr(String) }
pub type Result<T> = core::result::Result<T, Error>;

macro_rules! trace { ($($tt:tt)*) => {{}} }
macro_rules! debug { ($($tt:tt)*) => {{}} }
macro_rules! e_fmt { ($($arg:tt)+) => { Error::Msg(format!($($arg)+)) }; }

#[derive(Debug, Clone)]
pub struct InterfaceId { pub name: String, pub index: u32 }
#[verifier::external_body]
#[derive(Debug)]
pub struct DnsRecordBox { x: Box<dyn core::fmt::Debug> }
#[derive(Debug)]
pub struct DnsQuestion { pub entry: DnsEntry }
pub const CLASS_MASK: u16 = 0x7FFF;
pub const CLASS_CACHE_FLUSH: u16 = 0x8000;
pub const FLAGS_QR_MASK: u16 = 0x8000;
pub const FLAGS_QR_QUERY: u16 = 0x0000;
pub const FLAGS_QR_RESPONSE: u16 = 0x8000;
const MSG_HEADER_LEN: usize = 12;
const U16_SIZE: usize = 2;
#[derive(Debug, PartialEq, Eq, Clone, Copy, PartialOrd, Ord)]
#[non_exhaustive]
#[repr(u16)]
pub enum RRType {
    /// DNS record type for IPv4 address
    A = 1,

    /// DNS record type for Canonical Name
    CNAME = 5,

    /// DNS record type for Pointer
    PTR = 12,

    /// DNS record type for Host Info
    HINFO = 13,

    /// DNS record type for Text (properties)
    TXT = 16,

    /// DNS record type for IPv6 address
    AAAA = 28,

    /// DNS record type for Service
    SRV = 33,

    /// DNS record type for Negative Responses
    NSEC = 47,

    /// DNS record type for any records (wildcard)
    ANY = 255,
}

impl RRType {
    /// Converts `u16` into `RRType` if possible.
    pub const fn from_u16(value: u16) -> Option<Self> {
        match value {
            1 => Some(RRType::A),
            5 => Some(RRType::CNAME),
            12 => Some(RRType::PTR),
            13 => Some(RRType::HINFO),
            16 => Some(RRType::TXT),
            28 => Some(RRType::AAAA),
            33 => Some(RRType::SRV),
            47 => Some(RRType::NSEC),
            255 => Some(RRType::ANY),
            _ => None,
        }
    }
}
#[derive(Eq, PartialEq, Debug, Clone)]
pub struct DnsEntry {
    pub(crate) name: String, // always lower case.
    pub(crate) ty: RRType,
    class: u16,
    cache_flush: bool,
}

impl DnsEntry {
    const fn new(name: String, ty: RRType, class: u16) -> Self {
        Self {
            name,
            ty,
            class: class & CLASS_MASK,
            cache_flush: (class & CLASS_CACHE_FLUSH) != 0,
        }
    }
}

#[verifier::external_body]
pub fn current_time_millis() -> (r: u64) ensures r < 0x1000_0000_0000_0000 { 0 }

pub trait DnsRecordExt: Sized {
    fn boxed(self) -> DnsRecordBox;
}
#[derive(Debug, Clone)]
pub struct DnsRecord {
    pub(crate) entry: DnsEntry,
    ttl: u32,     // in seconds, 0 means this record should not be cached
    created: u64, // UNIX time in millis
    expires: u64, // expires at this UNIX time in millis

    /// Support re-query an instance before its PTR record expires.
    /// See https://datatracker.ietf.org/doc/html/rfc6762#section-5.2
    refresh: u64, // UNIX time in millis

    /// If conflict resolution decides to change the name, this is the new one.
    new_name: Option<String>,
}

impl DnsRecord {
    fn new(name: &str, ty: RRType, class: u16, ttl: u32) -> Self {
        let created = current_time_millis();

        // From RFC 6762 section 5.2:
        // "... The querier should plan to issue a query at 80% of the record
        // lifetime, and then if no answer is received, at 85%, 90%, and 95%."
        let refresh = get_expiration_time(created, ttl, 80);

        let expires = get_expiration_time(created, ttl, 100);

        Self {
            entry: DnsEntry::new(name.to_string(), ty, class),
            ttl,
            created,
            expires,
            refresh,
            new_name: None,
        }
    }
}
/// Resource Record for IPv4 address or IPv6 address.
#[derive(Debug, Clone)]
pub(crate) struct DnsAddress {
    pub(crate) record: DnsRecord,
    address: IpAddr,
    pub(crate) interface_id: InterfaceId,
}

impl DnsAddress {
    pub fn new(
        name: &str,
        ty: RRType,
        class: u16,
        ttl: u32,
        address: IpAddr,
        interface_id: InterfaceId,
    ) -> Self {
        let record = DnsRecord::new(name, ty, class, ttl);
        Self {
            record,
            address,
            interface_id,
        }
    }
}
impl DnsRecordExt for DnsAddress { #[verifier::external_body] fn boxed(self) -> DnsRecordBox { unimplemented!() } }
/// Resource Record for a DNS pointer
#[derive(Debug, Clone)]
pub struct DnsPointer {
    record: DnsRecord,
    alias: String, // the full name of Service Instance
}

impl DnsPointer {
    pub fn new(name: &str, ty: RRType, class: u16, ttl: u32, alias: String) -> Self {
        let record = DnsRecord::new(name, ty, class, ttl);
        Self { record, alias }
    }
}
impl DnsRecordExt for DnsPointer { #[verifier::external_body] fn boxed(self) -> DnsRecordBox { unimplemented!() } }
/// Resource Record for a DNS service.
#[derive(Debug, Clone)]
pub struct DnsSrv {
    pub(crate) record: DnsRecord,
    pub(crate) priority: u16, // lower number means higher priority. Should be 0 in common cases.
    pub(crate) weight: u16,   // Should be 0 in common cases
    host: String,
    port: u16,
}

impl DnsSrv {
    pub fn new(
        name: &str,
        class: u16,
        ttl: u32,
        priority: u16,
        weight: u16,
        port: u16,
        host: String,
    ) -> Self {
        let record = DnsRecord::new(name, RRType::SRV, class, ttl);
        Self {
            record,
            priority,
            weight,
            host,
            port,
        }
    }
}
impl DnsRecordExt for DnsSrv { #[verifier::external_body] fn boxed(self) -> DnsRecordBox { unimplemented!() } }
#[derive(Clone)]
pub struct DnsTxt {
    pub(crate) record: DnsRecord,
    text: Vec<u8>,
}

impl DnsTxt {
    pub fn new(name: &str, class: u16, ttl: u32, text: Vec<u8>) -> Self {
        let record = DnsRecord::new(name, RRType::TXT, class, ttl);
        Self { record, text }
    }
}
impl DnsRecordExt for DnsTxt { #[verifier::external_body] fn boxed(self) -> DnsRecordBox { unimplemented!() } }
impl core::fmt::Debug for DnsTxt { #[verifier::external_body] fn fmt(&self, f: &mut core::fmt::Formatter<'_>) -> core::fmt::Result { Ok(()) } }
/// A DNS host information record
#[derive(Debug, Clone)]
struct DnsHostInfo {
    record: DnsRecord,
    cpu: String,
    os: String,
}

impl DnsHostInfo {
    fn new(name: &str, ty: RRType, class: u16, ttl: u32, cpu: String, os: String) -> Self {
        let record = DnsRecord::new(name, ty, class, ttl);
        Self { record, cpu, os }
    }
}
impl DnsRecordExt for DnsHostInfo { #[verifier::external_body] fn boxed(self) -> DnsRecordBox { unimplemented!() } }
#[derive(Debug, Clone)]
pub struct DnsNSec {
    record: DnsRecord,
    next_domain: String,
    type_bitmap: Vec<u8>,
}

impl DnsNSec {
    pub fn new(
        name: &str,
        class: u16,
        ttl: u32,
        next_domain: String,
        type_bitmap: Vec<u8>,
    ) -> Self {
        let record = DnsRecord::new(name, RRType::NSEC, class, ttl);
        Self {
            record,
            next_domain,
            type_bitmap,
        }
    }
}
impl DnsRecordExt for DnsNSec { #[verifier::external_body] fn boxed(self) -> DnsRecordBox { unimplemented!() } }

#[derive(Debug)]
pub struct DnsIncoming {
    offset: usize,
    data: Vec<u8>,
    questions: Vec<DnsQuestion>,
    answers: Vec<DnsRecordBox>,
    authorities: Vec<DnsRecordBox>,
    additional: Vec<DnsRecordBox>,
    id: u16,
    flags: u16,
    num_questions: u16,
    num_answers: u16,
    num_authorities: u16,
    num_additionals: u16,
    interface_id: InterfaceId,
}

impl DnsIncoming {
    pub const fn is_query(&self) -> bool {
        (self.flags & FLAGS_QR_MASK) == FLAGS_QR_QUERY
    }

    pub const fn is_response(&self) -> bool {
        (self.flags & FLAGS_QR_MASK) == FLAGS_QR_RESPONSE
    }

    fn read_header(&mut self) -> Result<()> {
        if self.data.len() < MSG_HEADER_LEN {
            return Err(e_fmt!(
                "DNS incoming: header is too short: {} bytes",
                self.data.len()
            ));
        }

        let data = &self.data[0..];
        self.id = u16_from_be_slice(&data[..2]);
        self.flags = u16_from_be_slice(&data[2..4]);
        self.num_questions = u16_from_be_slice(&data[4..6]);
        self.num_answers = u16_from_be_slice(&data[6..8]);
        self.num_authorities = u16_from_be_slice(&data[8..10]);
        self.num_additionals = u16_from_be_slice(&data[10..12]);

        self.offset = MSG_HEADER_LEN;

        trace!(
            "read_header: id {}, {} questions {} answers {} authorities {} additionals",
            self.id,
            self.num_questions,
            self.num_answers,
            self.num_authorities,
            self.num_additionals
        );
        Ok(())
    }
    fn read_questions(&mut self) -> Result<()> {
        trace!("read_questions: {}", &self.num_questions);
        for i in 0..self.num_questions {
            let name = self.read_name()?;

            let data = &self.data[self.offset..];
            if data.len() < 4 {
                return Err(Error::Msg(format!(
                    "DNS incoming: question idx {} too short: {}",
                    i,
                    data.len()
                )));
            }
            let ty = u16_from_be_slice(&data[..2]);
            let class = u16_from_be_slice(&data[2..4]);
            self.offset += 4;

            let Some(rr_type) = RRType::from_u16(ty) else {
                return Err(Error::Msg(format!(
                    "DNS incoming: question idx {i} qtype unknown: {ty}",
                )));
            };

            self.questions.push(DnsQuestion {
                entry: DnsEntry::new(name, rr_type, class),
            });
        }
        Ok(())
    }
    fn read_answers(&mut self) -> Result<()> {
        self.answers = self.read_rr_records(self.num_answers)?;
        Ok(())
    }

    fn read_authorities(&mut self) -> Result<()> {
        self.authorities = self.read_rr_records(self.num_authorities)?;
        Ok(())
    }

    fn read_additional(&mut self) -> Result<()> {
        self.additional = self.read_rr_records(self.num_additionals)?;
        Ok(())
    }

    /// Decodes a sequence of RR records (in answers, authorities and additionals).
    fn read_rr_records(&mut self, count: u16) -> Result<Vec<DnsRecordBox>> {
        trace!("read_rr_records: {}", count);
        let mut rr_records = Vec::new();

        // RFC 1035: https://datatracker.ietf.org/doc/html/rfc1035#section-3.2.1
        //
        // All RRs have the same top level format shown below:
        //                               1  1  1  1  1  1
        // 0  1  2  3  4  5  6  7  8  9  0  1  2  3  4  5
        // +--+--+--+--+--+--+--+--+--+--+--+--+--+--+--+--+
        // |                                               |
        // /                                               /
        // /                      NAME                     /
        // |                                               |
        // +--+--+--+--+--+--+--+--+--+--+--+--+--+--+--+--+
        // |                      TYPE                     |
        // +--+--+--+--+--+--+--+--+--+--+--+--+--+--+--+--+
        // |                     CLASS                     |
        // +--+--+--+--+--+--+--+--+--+--+--+--+--+--+--+--+
        // |                      TTL                      |
        // |                                               |
        // +--+--+--+--+--+--+--+--+--+--+--+--+--+--+--+--+
        // |                   RDLENGTH                    |
        // +--+--+--+--+--+--+--+--+--+--+--+--+--+--+--+--|
        // /                     RDATA                     /
        // /                                               /
        // +--+--+--+--+--+--+--+--+--+--+--+--+--+--+--+--+

        // Muse have at least TYPE, CLASS, TTL, RDLENGTH fields: 10 bytes.
        const RR_HEADER_REMAIN: usize = 10;

        for _ in 0..count {
            let name = self.read_name()?;
            let slice = &self.data[self.offset..];

            if slice.len() < RR_HEADER_REMAIN {
                return Err(Error::Msg(format!(
                    "read_others: RR '{}' is too short after name: {} bytes",
                    &name,
                    slice.len()
                )));
            }

            let ty = u16_from_be_slice(&slice[..2]);
            let class = u16_from_be_slice(&slice[2..4]);
            let mut ttl = u32_from_be_slice(&slice[4..8]);
            if ttl == 0 && self.is_response() {
                // RFC 6762 section 10.1:
                // "...Queriers receiving a Multicast DNS response with a TTL of zero SHOULD
                // NOT immediately delete the record from the cache, but instead record
                // a TTL of 1 and then delete the record one second later."
                // See https://datatracker.ietf.org/doc/html/rfc6762#section-10.1

                ttl = 1;
            }
            let rdata_len = u16_from_be_slice(&slice[8..10]) as usize;
            self.offset += RR_HEADER_REMAIN;
            let next_offset = self.offset + rdata_len;

            // Sanity check for RDATA length.
            if next_offset > self.data.len() {
                return Err(Error::Msg(format!(
                    "RR {name} RDATA length {rdata_len} is invalid: remain data len: {}",
                    self.data.len() - self.offset
                )));
            }

            // decode RDATA based on the record type.
            let rec: Option<DnsRecordBox> = match RRType::from_u16(ty) {
                None => None,

                Some(rr_type) => match rr_type {
                    RRType::CNAME | RRType::PTR => {
                        Some(DnsPointer::new(&name, rr_type, class, ttl, self.read_name()?).boxed())
                    }
                    RRType::TXT => {
                        Some(DnsTxt::new(&name, class, ttl, self.read_vec(rdata_len)?).boxed())
                    }
                    RRType::SRV => Some(
                        DnsSrv::new(
                            &name,
                            class,
                            ttl,
                            self.read_u16()?,
                            self.read_u16()?,
                            self.read_u16()?,
                            self.read_name()?,
                        )
                        .boxed(),
                    ),
                    RRType::HINFO => Some(
                        DnsHostInfo::new(
                            &name,
                            rr_type,
                            class,
                            ttl,
                            self.read_char_string()?,
                            self.read_char_string()?,
                        )
                        .boxed(),
                    ),
                    RRType::A => Some(
                        DnsAddress::new(
                            &name,
                            rr_type,
                            class,
                            ttl,
                            self.read_ipv4()?.into(),
                            self.interface_id.clone(),
                        )
                        .boxed(),
                    ),
                    RRType::AAAA => Some(
                        DnsAddress::new(
                            &name,
                            rr_type,
                            class,
                            ttl,
                            self.read_ipv6()?.into(),
                            self.interface_id.clone(),
                        )
                        .boxed(),
                    ),
                    RRType::NSEC => Some(
                        DnsNSec::new(
                            &name,
                            class,
                            ttl,
                            self.read_name()?,
                            self.read_type_bitmap()?,
                        )
                        .boxed(),
                    ),
                    _ => None,
                },
            };

            if let Some(record) = rec {
                trace!("read_rr_records: {:?}", &record);
                rr_records.push(record);
            } else {
                trace!("Unsupported DNS record type: {} name: {}", ty, &name);
                self.offset += rdata_len;
            }

            // sanity check.
            if self.offset != next_offset {
                return Err(Error::Msg(format!(
                    "read_rr_records: decode offset error for RData type {} offset: {} expected offset: {}",
                    ty, self.offset, next_offset,
                )));
            }
        }

        Ok(rr_records)
    }

    fn read_char_string(&mut self) -> Result<String> {
        let length = self.data[self.offset];
        self.offset += 1;
        self.read_string(length as usize)
    }

    fn read_u16(&mut self) -> Result<u16> {
        let slice = &self.data[self.offset..];
        if slice.len() < U16_SIZE {
            return Err(Error::Msg(format!(
                "read_u16: slice len is only {}",
                slice.len()
            )));
        }
        let num = u16_from_be_slice(&slice[..U16_SIZE]);
        self.offset += U16_SIZE;
        Ok(num)
    }
    /// Reads the "Type Bit Map" block for a DNS NSEC record.
    fn read_type_bitmap(&mut self) -> Result<Vec<u8>> {
        // From RFC 6762: 6.1.  Negative Responses
        // https://datatracker.ietf.org/doc/html/rfc6762#section-6.1
        //   o The Type Bit Map block number is 0.
        //   o The Type Bit Map block length byte is a value in the range 1-32.
        //   o The Type Bit Map data is 1-32 bytes, as indicated by length
        //     byte.

        // Sanity check: at least 2 bytes to read.
        if self.data.len() < self.offset + 2 {
            return Err(Error::Msg(format!(
                "DnsIncoming is too short: {} at NSEC Type Bit Map offset {}",
                self.data.len(),
                self.offset
            )));
        }

        let block_num = self.data[self.offset];
        self.offset += 1;
        if block_num != 0 {
            return Err(Error::Msg(format!(
                "NSEC block number is not 0: {block_num}"
            )));
        }

        let block_len = self.data[self.offset] as usize;
        if !(1..=32).contains(&block_len) {
            return Err(Error::Msg(format!(
                "NSEC block length must be in the range 1-32: {block_len}"
            )));
        }
        self.offset += 1;

        let end = self.offset + block_len;
        if end > self.data.len() {
            return Err(Error::Msg(format!(
                "NSEC block overflow: {} over RData len {}",
                end,
                self.data.len()
            )));
        }
        let bitmap = self.data[self.offset..end].to_vec();
        self.offset += block_len;

        Ok(bitmap)
    }

    fn read_vec(&mut self, length: usize) -> Result<Vec<u8>> {
        if self.data.len() < self.offset + length {
            return Err(e_fmt!(
                "DNS Incoming: not enough data to read a chunk of data"
            ));
        }

        let v = self.data[self.offset..self.offset + length].to_vec();
        self.offset += length;
        Ok(v)
    }

    fn read_ipv4(&mut self) -> Result<Ipv4Addr> {
        if self.data.len() < self.offset + 4 {
            return Err(e_fmt!("DNS Incoming: not enough data to read an IPV4"));
        }

        let bytes: [u8; 4] = self.data[self.offset..self.offset + 4]
            .try_into()
            .map_err(|_e| e_fmt!("DNS incoming: Not enough bytes for reading an IPV4"))?;
        self.offset += bytes.len();
        Ok(Ipv4Addr::from(bytes))
    }

    fn read_ipv6(&mut self) -> Result<Ipv6Addr> {
        if self.data.len() < self.offset + 16 {
            return Err(e_fmt!("DNS Incoming: not enough data to read an IPV6"));
        }

        let bytes: [u8; 16] = self.data[self.offset..self.offset + 16]
            .try_into()
            .map_err(|_e| e_fmt!("DNS incoming: Not enough bytes for reading an IPV6"))?;
        self.offset += bytes.len();
        Ok(Ipv6Addr::from(bytes))
    }

    fn read_string(&mut self, length: usize) -> Result<String> {
        if self.data.len() < self.offset + length {
            return Err(e_fmt!("DNS Incoming: not enough data to read a string"));
        }

        let s = str::from_utf8(&self.data[self.offset..self.offset + length])
            .map_err(|e| Error::Msg(e.to_string()))?;
        self.offset += length;
        Ok(s.to_string())
    }
    #[verifier::exec_allows_no_decreases_clause]
    fn read_name(&mut self) -> Result<String> {
        let data = &self.data[..];
        let start_offset = self.offset;
        let mut offset = start_offset;
        let mut name = "".to_string();
        let mut at_end = false;

        // From RFC1035:
        // "...Domain names in messages are expressed in terms of a sequence of labels.
        // Each label is represented as a one octet length field followed by that
        // number of octets."
        //
        // "...The compression scheme allows a domain name in a message to be
        // represented as either:
        // - a sequence of labels ending in a zero octet
        // - a pointer
        // - a sequence of labels ending with a pointer"
        loop {
            if offset >= data.len() {
                return Err(Error::Msg(format!(
                    "read_name: offset: {} data len {}. DnsIncoming: {:?}",
                    offset,
                    data.len(),
                    self
                )));
            }
            let length = data[offset];

            // From RFC1035:
            // "...Since every domain name ends with the null label of
            // the root, a domain name is terminated by a length byte of zero."
            if length == 0 {
                if !at_end {
                    self.offset = offset + 1;
                }
                break; // The end of the name
            }

            // Check the first 2 bits for possible "Message compression".
            match length & 0xC0 {
                0x00 => {
                    // regular utf8 string with length
                    offset += 1;
                    let ending = offset + length as usize;

                    // Never read beyond the whole data length.
                    if ending > data.len() {
                        return Err(Error::Msg(format!(
                            "read_name: ending {} exceeds data length {}",
                            ending,
                            data.len()
                        )));
                    }

                    name += str::from_utf8(&data[offset..ending])
                        .map_err(|e| Error::Msg(format!("read_name: from_utf8: {e}")))?;
                    name += ".";
                    offset += length as usize;
                }
                0xC0 => {
                    // Message compression.
                    // See https://datatracker.ietf.org/doc/html/rfc1035#section-4.1.4
                    let slice = &data[offset..];
                    if slice.len() < U16_SIZE {
                        return Err(Error::Msg(format!(
                            "read_name: u16 slice len is only {}",
                            slice.len()
                        )));
                    }
                    let pointer = (u16_from_be_slice(slice) ^ 0xC000) as usize;
                    if pointer >= start_offset {
                        // Error: could trigger an infinite loop.
                        return Err(Error::Msg(format!(
                            "Invalid name compression: pointer {} must be less than the start offset {}",
                            &pointer, &start_offset
                        )));
                    }

                    // A pointer marks the end of a domain name.
                    if !at_end {
                        self.offset = offset + U16_SIZE;
                        at_end = true;
                    }
                    offset = pointer;
                }
                _ => {
                    return Err(Error::Msg(format!(
                        "Bad name with invalid length: 0x{:x} offset {}, data (so far): {:x?}",
                        length,
                        offset,
                        &data[..offset]
                    )));
                }
            };
        }

        Ok(name)
    }
}
const fn u16_from_be_slice(bytes: &[u8]) -> u16 {
    let u8_array: [u8; 2] = [bytes[0], bytes[1]];
    vx_u16_from_be_bytes(u8_array)
}

const fn u32_from_be_slice(s: &[u8]) -> u32 {
    let u8_array: [u8; 4] = [s[0], s[1], s[2], s[3]];
    vx_u32_from_be_bytes(u8_array)
}

/// Returns the UNIX time in millis at which this record will have expired
/// by a certain percentage.
const fn get_expiration_time(created: u64, ttl: u32, percent: u32) -> u64 {
    // 'created' is in millis, 'ttl' is in seconds, hence:
    // ttl * 1000 * (percent / 100) => ttl * percent * 10
    created + (ttl as u64 * percent as u64 * 10)
}
} // verus!
fn main() {}
