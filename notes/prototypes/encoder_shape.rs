#![feature(allocator_api)]
use vstd::prelude::*;
verus! {
pub assume_specification<T: ?Sized, A: core::alloc::Allocator> [<Box<T, A> as core::convert::AsRef<T>>::as_ref] (b: &Box<T, A>) -> (r: &T)
    ;

pub const MAX_MSG_ABSOLUTE: usize = 8972;
pub struct DnsOutPacket { pub data: Vec<u8>, pub finished: bool }

pub open spec fn is_prefix(a: Seq<u8>, b: Seq<u8>) -> bool { a.len() <= b.len() && b.subrange(0, a.len() as int) == a }

pub trait DnsRecordExt {
    fn write(&self, packet: &mut DnsOutPacket)
        requires old(packet).data@.len() >= 12,
        ensures is_prefix(old(packet).data@, final(packet).data@);
    fn get_ttl(&self) -> u32;
}
pub struct DnsTxt { pub ttl: u32, pub text: Vec<u8> }
impl DnsRecordExt for DnsTxt {
    fn write(&self, packet: &mut DnsOutPacket) {
        packet.write_bytes(&self.text);
    }
    fn get_ttl(&self) -> u32 { self.ttl }
}
pub type DnsRecordBox = Box<dyn DnsRecordExt>;

impl DnsOutPacket {
    pub fn size(&self) -> (r: usize) ensures r == self.data@.len() { self.data.len() }
    fn write_bytes(&mut self, s: &[u8])
        ensures final(self).data@ == old(self).data@ + s@, final(self).finished == old(self).finished,
    {
        self.data.extend_from_slice(s);
    }
    fn write_short(&mut self, v: u16)
        ensures final(self).data@.len() == old(self).data@.len() + 2, is_prefix(old(self).data@, final(self).data@), final(self).finished == old(self).finished,
    {
        self.data.push((v >> 8) as u8);
        self.data.push((v & 0xff) as u8);
    }
    fn write_record(&mut self, record_ext: &dyn DnsRecordExt, now: u64) -> (ret: bool)
        requires old(self).data@.len() >= 12,
        ensures
            ret ==> is_prefix(old(self).data@, final(self).data@) && final(self).data@.len() <= MAX_MSG_ABSOLUTE,
            !ret ==> final(self).data@ == old(self).data@ && final(self).finished,
    {
        let start_size = self.size();
        self.write_short(0);
        let record_offset = self.size();
        record_ext.write(self);
        if self.size() > MAX_MSG_ABSOLUTE {
            self.data.truncate(start_size);
            self.finished = true;
            return false;
        }
        true
    }
}

fn to_packets(answers: &Vec<(DnsRecordBox, u64)>) -> (r: (DnsOutPacket, u16))
{
    let mut packet = DnsOutPacket { data: vec![0; 12], finished: false };
    let mut answer_count: u16 = 0;
    let ghost mut written: Seq<int> = Seq::empty();
    for (answer, time) in it: answers.iter()
        invariant packet.data@.len() >= 12, answer_count as int == written.len(), written.len() <= it.index@,
            it.index@ <= answers@.len(),
    {
        if packet.write_record(answer.as_ref(), *time) {
            if answer_count < 0xffff { answer_count += 1; proof { written = written.push(it.index@ as int); } }
        }
    }
    (packet, answer_count)
}
} // verus!
fn main() {}
