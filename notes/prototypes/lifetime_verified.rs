use vstd::prelude::*;
verus! {
macro_rules! trace { ($($tt:tt)*) => {{}} }
pub struct DnsEntry { pub name: String, pub ty: u16, pub class: u16, pub cache_flush: bool }
pub struct DnsRecord {
    pub entry: DnsEntry, pub ttl: u32, pub created: u64, pub expires: u64, pub refresh: u64, pub new_name: Option<String>,
}
pub open spec fn exp_at(c: u64, t: u32, p: int) -> int { c as int + (t as int) * p * 10 }
pub open spec fn sane(r: DnsRecord) -> bool { r.created < 0x4000_0000_0000_0000 }
pub open spec fn mark_idx(r: DnsRecord) -> int {
    if r.refresh as int == exp_at(r.created, r.ttl, 80) { 0 }
    else if r.refresh as int == exp_at(r.created, r.ttl, 85) { 1 }
    else if r.refresh as int == exp_at(r.created, r.ttl, 90) { 2 }
    else if r.refresh as int == exp_at(r.created, r.ttl, 95) { 3 }
    else { 4 }
}
fn get_expiration_time(created: u64, ttl: u32, percent: u32) -> (ret: u64)
    requires created < 0x4000_0000_0000_0000, percent <= 100,
    ensures ret as int == exp_at(created, ttl, percent as int),
{
    // 'created' is in millis, 'ttl' is in seconds, hence:
    // ttl * 1000 * (percent / 100) => ttl * percent * 10
    proof { assert((ttl as int) * (percent as int) <= 0xFFFF_FFFF * 100) by (nonlinear_arith) requires ttl <= 0xFFFF_FFFF, percent <= 100; }
    created + (ttl as u64 * percent as u64 * 10)
}
impl DnsRecord {
    pub fn is_expired(&self, now: u64) -> (ret: bool)
        ensures ret == (now >= self.expires),
    {
        now >= self.expires
    }

    /// Returns whether record expires in 1 second.
    ///
    /// This is useful because mDNS sets TTL to 1 (not 0) for expiring records.
    pub fn expires_soon(&self, now: u64) -> (ret: bool)
        requires now < 0x4000_0000_0000_0000,
        ensures ret == (now + 1000 >= self.expires),
    {
        now + 1000 >= self.expires
    }

    pub fn refresh_due(&self, now: u64) -> (ret: bool)
        ensures ret == (now >= self.refresh),
    {
        now >= self.refresh
    }
    pub fn refresh_no_more(&mut self)
        requires sane(*old(self)),
        ensures final(self).refresh as int == exp_at(old(self).created, old(self).ttl, 100), final(self).ttl == old(self).ttl, final(self).created == old(self).created, final(self).expires == old(self).expires,
    {
        self.refresh = get_expiration_time(self.created, self.ttl, 100);
    }

    /// Returns if this record is due for refresh. If yes, `refresh` time is updated.
    pub fn refresh_maybe(&mut self, now: u64) -> (ret: bool)
        requires sane(*old(self)),
        ensures
            ret == (now < old(self).expires && now >= old(self).refresh),
            final(self).ttl == old(self).ttl, final(self).created == old(self).created, final(self).expires == old(self).expires,
            !ret ==> final(self).refresh == old(self).refresh,
            ret ==> mark_idx(*old(self)) < 4 ==> final(self).refresh as int == exp_at(old(self).created, old(self).ttl, 85 + 5 * mark_idx(*old(self))),
            ret ==> mark_idx(*old(self)) == 4 ==> final(self).refresh as int == exp_at(old(self).created, old(self).ttl, 100),
            ret && old(self).ttl >= 1 && mark_idx(*old(self)) < 4 ==> final(self).refresh > old(self).refresh && mark_idx(*final(self)) == mark_idx(*old(self)) + 1,
    {
        if self.is_expired(now) || !self.refresh_due(now) {
            return false;
        }

        trace!(
            "{} qtype {} is due to refresh",
            &self.entry.name,
            self.entry.ty
        );

        // From RFC 6762 section 5.2:
        // "... The querier should plan to issue a query at 80% of the record
        // lifetime, and then if no answer is received, at 85%, 90%, and 95%."
        //
        // If the answer is received in time, 'refresh' will be reset outside
        // this function, back to 80% of the new TTL.
        if self.refresh == get_expiration_time(self.created, self.ttl, 80) {
            self.refresh = get_expiration_time(self.created, self.ttl, 85);
        } else if self.refresh == get_expiration_time(self.created, self.ttl, 85) {
            self.refresh = get_expiration_time(self.created, self.ttl, 90);
        } else if self.refresh == get_expiration_time(self.created, self.ttl, 90) {
            self.refresh = get_expiration_time(self.created, self.ttl, 95);
        } else {
            self.refresh_no_more();
        }

        true
    }
}

fn driver(r: &mut DnsRecord, nows: &Vec<u64>) -> (count: u64)
    requires sane(*old(r)), old(r).ttl >= 1, mark_idx(*old(r)) == 0, old(r).expires as int == exp_at(old(r).created, old(r).ttl, 100),
    ensures count <= 4,
{
    let mut count: u64 = 0;
    let mut i: usize = 0;
    while i < nows.len()
        invariant
            sane(*r), r.ttl >= 1, r.ttl == old(r).ttl, r.created == old(r).created,
            r.expires as int == exp_at(r.created, r.ttl, 100), mark_idx(*r) == 4 ==> r.refresh as int == exp_at(r.created, r.ttl, 100),
            0 <= mark_idx(*r) <= 4, count + (4 - mark_idx(*r)) <= 4, i <= nows.len(),
        decreases nows.len() - i,
    {
        let ghost prev = *r;
        let fired = r.refresh_maybe(nows[i]);
        proof {
            if fired && mark_idx(prev) == 4 { assert(false); }
            if fired { assert(mark_idx(*r) == mark_idx(prev) + 1); }
            if !fired { assert(mark_idx(*r) == mark_idx(prev)); }
        }
        if fired { count = count + 1; }
        i += 1;
    }
    count
}
} // verus!
fn main() {}
