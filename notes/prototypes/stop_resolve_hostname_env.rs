use vstd::prelude::*;
verus! {

macro_rules! trace { ($($tt:tt)*) => {{}} }
macro_rules! debug { ($($tt:tt)*) => {{}} }

#[verifier::external_body]
#[verifier::reject_recursive_types(K)]
#[verifier::reject_recursive_types(V)]
pub struct HashMap<K, V> { x: core::marker::PhantomData<(K, V)> }
impl<K, V> HashMap<K, V> {
    pub uninterp spec fn view(&self) -> Map<K, V>;
    #[verifier::external_body]
    pub fn remove_entry(&mut self, k: &K) -> (r: Option<(K, V)>)
        ensures
            old(self)@.contains_key(*k) ==> r == Some((*k, old(self)@[*k])) && final(self)@ == old(self)@.remove(*k),
            !old(self)@.contains_key(*k) ==> r is None && final(self)@ == old(self)@,
    { unimplemented!() }
}

// ---- environment stubs ----
pub enum HostnameResolutionEvent { SearchStarted(String), SearchTimeout(String), SearchStopped(String) }

#[verifier::external_body]
#[verifier::reject_recursive_types(T)]
pub struct Sender<T> { x: core::marker::PhantomData<T> }
pub struct SendError {}
impl<T> Sender<T> {
    #[verifier::external_body]
    pub fn send(&self, ev: T) -> (r: core::result::Result<(), SendError>) { unimplemented!() }
}

pub enum Command {
    ResolveHostname(String, u32, Sender<HostnameResolutionEvent>, Option<u64>),
    Resolve(String, u16),
}
pub struct ReRun { pub next_time: u64, pub command: Command }

pub struct Zeroconf {
    pub hostname_resolvers: HashMap<String, (Sender<HostnameResolutionEvent>, Option<u64>)>,
    pub retransmissions: Vec<ReRun>,
}

pub open spec fn is_rh_for(c: Command, host: Seq<char>) -> bool {
    match c { Command::ResolveHostname(h, _, _, _) => h@ == host, _ => false }
}


impl Zeroconf {
    fn exec_command_stop_resolve_hostname(&mut self, hostname: String)
        ensures
            old(self).hostname_resolvers@.contains_key(hostname) ==> forall|i: int| 0 <= i < final(self).retransmissions@.len() ==> !is_rh_for(#[trigger] final(self).retransmissions@[i].command, hostname@),
    {
        if let Some((host, (sender, _timeout))) = self.hostname_resolvers.remove_entry(&hostname) {
            // Remove pending resolve commands in the reruns.
            trace!("StopResolve: removed queryer for {}", &host);
            let mut i = 0;
            while i < self.retransmissions.len()
                invariant
                    i <= self.retransmissions@.len(),
                    host@ == hostname@,
                    forall|j: int| 0 <= j < i ==> !is_rh_for(#[trigger] self.retransmissions@[j].command, hostname@),
                decreases self.retransmissions@.len() - i,
            {
                if let Command::ResolveHostname(t, _, _, _) = &self.retransmissions[i].command {
                    if t == &host {
                        self.retransmissions.remove(i);
                        trace!("StopResolve: removed retransmission for {}", &host);
                        continue;
                    }
                }
                i += 1;
            }

            // Notify the client.
            match sender.send(HostnameResolutionEvent::SearchStopped(hostname)) {
                Ok(()) => trace!("Sent SearchStopped to the listener"),
                Err(e) => debug!("Failed to send SearchStopped: {}", e),
            }
        }
    }
}

} // verus!
fn main() {}
