use vstd::prelude::*;
use std::collections::HashMap;
verus! {

pub trait Rec {
    spec fn ttl_spec(&self) -> u32;
    fn get_ttl(&self) -> (r: u32) ensures r == self.ttl_spec();
}
pub struct A { pub ttl: u32 }
impl Rec for A {
    open spec fn ttl_spec(&self) -> u32 { self.ttl }
    fn get_ttl(&self) -> (r: u32) { self.ttl }
}

fn sum_dyn(v: &Vec<Box<dyn Rec>>) -> (r: u64)
{
    let mut s: u64 = 0;
    for x in it: v.iter()
        invariant s <= 0xffff_ffff * it.index@,
    {
        let t = x.get_ttl();
        s = s + t as u64;
    }
    s
}

fn generic_arg(x: impl Rec) -> (r: u32) ensures r == x.ttl_spec() { x.get_ttl() }

#[derive(PartialEq, Eq, Clone, Copy)]
pub enum Ty { A = 1, B = 5 }

fn let_else(o: Option<u32>) -> u32 {
    let Some(x) = o else { return 0; };
    x
}

fn vec_ops(v: &mut Vec<u8>, s: &[u8])
    requires old(v).len() >= 3
{
    v.remove(1);
    v.insert(0, 7);
    v.truncate(1);
    v.extend_from_slice(s);
    assert!(v.len() >= 1);
}

fn range16(n: u16) -> (r: u32) {
    let mut c: u32 = 0;
    for i in 0..n
        invariant c == i as u32,
    { c += 1; }
    c
}

fn while_let(v: &mut Vec<u8>) {
    while let Some(x) = v.pop()
        decreases v.len()
    {
    }
}

fn casts(a: u32, now: u64) -> (r: u64)
    requires now < 0x4000_0000_0000_0000
{
    now + (a as u64) * 1000
}

} // verus!
fn main() {}
