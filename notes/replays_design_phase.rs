// Design-phase replays, appended to src/dns_parser.rs of a scratch copy and run with
//   cargo test --offline --lib verif_replay -- --nocapture --test-threads 1
// Results on the pinned tree (2435712): F1 panic at dns_parser.rs:2370, F2 hang (watchdog 3 s),
// F3 A-record owner name = pointer to itself (C0 0C), own decoder rejects the packet,
// F7 continuation packet len=12 with ARCOUNT=1, K1 one packet of 17507 bytes.

#[cfg(test)]
mod verif_replay {
    use super::*;
    use std::sync::mpsc;
    use std::time::Duration;

    fn decode_with_watchdog(data: Vec<u8>) -> &'static str {
        let (tx, rx) = mpsc::channel();
        std::thread::spawn(move || {
            let r = std::panic::catch_unwind(|| DnsIncoming::new(data, InterfaceId::default()).is_ok());
            let _ = tx.send(match r { Ok(true) => "ok", Ok(false) => "err", Err(_) => "panic" });
        });
        match rx.recv_timeout(Duration::from_secs(3)) { Ok(s) => s, Err(_) => "hang" }
    }

    #[test]
    fn f1_hinfo_zero_rdlength() {
        // header: 1 answer; name root(0), type HINFO(13), class 1, ttl 0, rdlength 0
        let mut d = vec![0,0,0x84,0, 0,0, 0,1, 0,0, 0,0];
        d.extend_from_slice(&[0, 0,13, 0,1, 0,0,0,10, 0,0]);
        println!("F1 result: {}", decode_with_watchdog(d));
    }

    #[test]
    fn f2_pointer_cycle_through_rdata() {
        // answer 1: root name, unknown type 99, rdlength 4: bytes [1,'a',1,'b'] at offsets 23..27
        // answer 2 at 27: name = pointer to 23  -> labels "a","b" run forward into offset 27 = the pointer again
        let mut d = vec![0,0,0x84,0, 0,0, 0,2, 0,0, 0,0];
        d.extend_from_slice(&[0, 0,99, 0,1, 0,0,0,10, 0,4, 1,b'a',1,b'b']);
        assert_eq!(d.len(), 27);
        d.extend_from_slice(&[0xC0, 23, 0,1, 0,1, 0,0,0,10, 0,4, 1,2,3,4]);
        println!("F2 result: {}", decode_with_watchdog(d));
    }
}

#[cfg(test)]
mod verif_replay2 {
    use super::*;
    use std::net::Ipv4Addr;

    #[test]
    fn f3_stale_names_after_rollback() {
        let mut out = DnsOutgoing::new(FLAGS_QR_RESPONSE | FLAGS_AA);
        out.add_answer_at_time(DnsTxt::new("x.local.", CLASS_IN, 120, vec![7u8; 9000]), 0);
        out.add_answer_at_time(DnsAddress::new("x.local.", RRType::A, CLASS_IN, 120, IpAddr::V4(Ipv4Addr::new(10,0,0,1)), InterfaceId::default()), 0);
        let pkts = out.to_data_on_wire();
        println!("F3 packets={} len={} bytes12..={:?}", pkts.len(), pkts[0].len(), &pkts[0][12..]);
        let dec = DnsIncoming::new(pkts[0].clone(), InterfaceId::default());
        println!("F3 own decoder: {:?}", dec.map(|m| m.answers().len()).map_err(|e| e.to_string().chars().take(60).collect::<String>()));
    }

    #[test]
    fn f7_tc_packet_counts_unwritten_record() {
        let mut out = DnsOutgoing::new(FLAGS_QR_QUERY);
        out.add_question("a.local.", RRType::PTR);
        out.add_additional_answer(DnsTxt::new("x.local.", CLASS_IN, 120, vec![7u8; 9000]));
        let pkts = out.to_data_on_wire();
        for (i, p) in pkts.iter().enumerate() {
            println!("F7 packet {} len={} header={:?}", i, p.len(), &p[..12]);
        }
    }

    #[test]
    fn k1_many_questions_oversize() {
        let mut out = DnsOutgoing::new(FLAGS_QR_QUERY);
        for i in 0..800 { out.add_question(&format!("name-number-{i}.local."), RRType::PTR); }
        let pkts = out.to_data_on_wire();
        println!("K1 packets={} len0={} (max {})", pkts.len(), pkts[0].len(), MAX_MSG_ABSOLUTE);
    }
}
