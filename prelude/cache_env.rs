// ---- environment of unit `cache` (trusted) ----
#[verifier::external_type_specification]
#[verifier::external_body]
pub struct ExIpAddr(IpAddr);
pub struct InterfaceId { pub name: String, pub index: u32 }
#[verifier::external_body]
pub struct DnsRecordDyn { x: core::marker::PhantomData<u8> }
pub type DnsRecordBox = Box<DnsRecordDyn>;
impl DnsRecordDyn {
    // what `record.any().downcast_ref::<DnsPointer / DnsSrv>()` would find (dyn Any; assumed)
    pub uninterp spec fn ptr_alias(&self) -> Option<Seq<char>>;
    pub uninterp spec fn srv_host(&self) -> Option<Seq<char>>;
    #[verifier::external_body]
    pub fn as_ptr(&self) -> (r: Option<&DnsPointer>)
        ensures r is Some <==> self.ptr_alias() is Some, r is Some ==> r->Some_0.alias@ == self.ptr_alias()->Some_0,
    { unimplemented!() }
    #[verifier::external_body]
    pub fn as_srv(&self) -> (r: Option<&DnsSrv>)
        ensures r is Some <==> self.srv_host() is Some, r is Some ==> r->Some_0.host@ == self.srv_host()->Some_0,
    { unimplemented!() }
}
pub uninterp spec fn lower(s: Seq<char>) -> Seq<char>;
#[verifier::external_body]
pub broadcast proof fn axiom_lower_idem(s: Seq<char>)
    ensures #[trigger] lower(lower(s)) == lower(s),
{}
#[verifier::external_body]
pub broadcast proof fn axiom_string_ext(a: String, b: String)
    ensures #![trigger a@, b@] a@ == b@ ==> a == b,
{}
pub assume_specification [str::to_lowercase] (s: &str) -> (r: String)
    ensures r@ == lower(s@);
// HashMap<String, V> looked up / removed with a &str key (Borrow<str>)
pub open spec fn has_str<V>(m: Map<String, V>, s: Seq<char>) -> bool { exists|k: String| k@ == s && m.contains_key(k) }
#[verifier::external_body]
pub fn vx_get_mut_str<'a, V>(m: &'a mut HashMap<String, V>, k: &str) -> (r: Option<&'a mut V>)
    ensures
        has_str(old(m)@, k@) ==> r is Some && exists|key: String| key@ == k@ && old(m)@.contains_key(key) && *r->Some_0 == old(m)@[key] && final(m)@ == old(m)@.insert(key, *final(r->Some_0)),
        !has_str(old(m)@, k@) ==> r is None && *final(m) == *old(m),
{ unimplemented!() }
#[verifier::external_body]
pub fn vx_remove_str<V>(m: &mut HashMap<String, V>, k: &str)
    ensures
        forall|key: String| #[trigger] final(m)@.contains_key(key) ==> old(m)@.contains_key(key) && key@ != k@ && final(m)@[key] == old(m)@[key],
        forall|key: String| #[trigger] old(m)@.contains_key(key) && key@ != k@ ==> final(m)@.contains_key(key),
        !has_str(old(m)@, k@) ==> *final(m) == *old(m),
{ unimplemented!() }
#[verifier::external_body]
pub fn vx_set_into_vec<K>(s: HashSet<K>) -> (r: Vec<K>)
    ensures forall|x: K| #[trigger] s@.contains(x) ==> r@.contains(x), forall|j: int| 0 <= j < r@.len() ==> s@.contains(#[trigger] r@[j]),
{ unimplemented!() }
#[verifier::external_body]
pub fn vx_string_eq(a: String, b: &String) -> (r: bool) ensures r == (a@ == b@) { unimplemented!() }
// some SRV record in the cache targets the (lower-cased) host name hl
pub open spec fn rec_targets(r: DnsRecordIntf, hl: Seq<char>) -> bool { r.record.srv_host() is Some && lower(r.record.srv_host()->Some_0) == hl }
pub open spec fn list_targets(rs: Seq<DnsRecordIntf>, n: int, hl: Seq<char>) -> bool { exists|j: int| 0 <= j < n && rec_targets(#[trigger] rs[j], hl) }
pub open spec fn targets(srv: HashMap<String, Vec<DnsRecordIntf>>, n: int, hl: Seq<char>) -> bool {
    exists|e: int| 0 <= e < n && list_targets((#[trigger] srv.entries()[e]).1@, srv.entries()[e].1@.len() as int, hl)
}
// `map.iter().filter_map(|(k, v)| F).collect::<Vec<String>>()`: F's Some results in iteration order
#[verifier::external_body]
pub fn vx_filter_map_collect<V, F: Fn(&String, &V) -> Option<String>>(m: &HashMap<String, V>, f: F) -> (r: Vec<String>)
    requires forall|k: &String, v: &V| #[trigger] f.requires((k, v)),
    ensures
        // every listed string is F's answer for some entry; an entry F answered None for contributes nothing (the
        // converse - every Some answer is listed - is stated per entry)
        forall|j: int| 0 <= j < r@.len() ==> listed_by(m, f, #[trigger] r@[j]),
        forall|e: int| 0 <= e < m.entries().len() ==> answered(m, f, e, r@),
{ unimplemented!() }
#[verifier::external_body]
pub fn vx_string_eq2(a: String, b: &String) -> (r: bool) ensures r == (a@ == b@) { unimplemented!() }
pub open spec fn listed_by<V, F: Fn(&String, &V) -> Option<String>>(m: &HashMap<String, V>, f: F, x: String) -> bool {
    exists|e: int| 0 <= e < m.entries().len() && f.ensures((&(#[trigger] m.entries()[e]).0, &m.entries()[e].1), Some(x))
}
pub open spec fn answered<V, F: Fn(&String, &V) -> Option<String>>(m: &HashMap<String, V>, f: F, e: int, r: Seq<String>) -> bool {
    f.ensures((&m.entries()[e].0, &m.entries()[e].1), None::<String>) || exists|j: int| 0 <= j < r.len() && f.ensures((&m.entries()[e].0, &m.entries()[e].1), Some(#[trigger] r[j]))
}
