// ---- environment of unit `cacheadd` (trusted) ----
#[verifier::external_type_specification]
#[verifier::external_body]
pub struct ExIpAddr(IpAddr);
pub struct InterfaceId { pub name: String, pub index: u32 }
pub struct MyIntf { pub name: String, pub index: u32 }
// `intf.into()` is `InterfaceId { name: my_intf.name.clone(), index: my_intf.index }`
#[verifier::external_body]
pub fn vx_intf_id(intf: &MyIntf) -> (r: InterfaceId)
    ensures r.index == intf.index, r.name@ == intf.name@,
{ unimplemented!() }
// Stand-in for `dyn DnsRecordExt` behind a Box (see records_env.rs).  `rec()` is the DnsRecord inside (entry and
// times); `payload()` stands for everything else (RDATA and, for addresses, the interface the record was learnt on).
#[verifier::external_body]
pub struct DnsRecordDyn { x: core::marker::PhantomData<u8> }
pub type DnsRecordBox = Box<DnsRecordDyn>;
pub uninterp spec fn same_record(p1: int, e1: DnsEntry, p2: int, e2: DnsEntry) -> bool;
pub uninterp spec fn payload_intf(p: int) -> Option<u32>;
pub uninterp spec fn payload_alias(p: int) -> Option<Seq<char>>;
impl DnsRecordDyn {
    pub uninterp spec fn rec(&self) -> DnsRecord;
    pub uninterp spec fn payload(&self) -> int;
    // what matches() decides (proved in unit records to be: same owner, type, class and RDATA; for addresses the same interface)
    pub open spec fn matches_spec(&self, other: &DnsRecordDyn) -> bool { same_record(self.payload(), self.rec().entry, other.payload(), other.rec().entry) }
    // one-line getters of the six impls / trait defaults over get_record() (units lifetime, records)
    #[verifier::external_body]
    pub fn get_name(&self) -> (r: &str) ensures r@ == rec_name(self.rec()) { unimplemented!() }
    #[verifier::external_body]
    pub fn get_type(&self) -> (r: RRType) ensures r == self.rec().entry.ty { unimplemented!() }
    #[verifier::external_body]
    pub fn get_class(&self) -> (r: u16) ensures r == self.rec().entry.class { unimplemented!() }
    #[verifier::external_body]
    pub fn get_cache_flush(&self) -> (r: bool) ensures r == self.rec().entry.cache_flush { unimplemented!() }
    #[verifier::external_body]
    pub fn get_created(&self) -> (r: u64) ensures r == self.rec().created { unimplemented!() }
    #[verifier::external_body]
    pub fn get_expire(&self) -> (r: u64) ensures r == self.rec().expires { unimplemented!() }
    // contract of the trait default set_expire (unit lifetime) plus: nothing but the record's times is touched
    #[verifier::external_body]
    pub fn set_expire(&mut self, expire_at: u64)
        ensures final(self).rec() == (DnsRecord { expires: expire_at, ..old(self).rec() }), final(self).payload() == old(self).payload(),
    { unimplemented!() }
    // contract of the trait default set_expire_sooner (unit lifetime: never lengthens a life) plus: nothing else is touched
    #[verifier::external_body]
    pub fn set_expire_sooner(&mut self, expire_at: u64)
        ensures final(self).rec() == (DnsRecord { expires: (if expire_at < old(self).rec().expires { expire_at } else { old(self).rec().expires }), ..old(self).rec() }), final(self).payload() == old(self).payload(),
    { unimplemented!() }
    // contract of the trait default reset_ttl (unit lifetime: fresh, ttl and created taken from `other`)
    #[verifier::external_body]
    pub fn reset_ttl(&mut self, other: &DnsRecordDyn)
        requires sane(other.rec()),
        ensures fresh(final(self).rec()), final(self).rec().ttl == other.rec().ttl, final(self).rec().created == other.rec().created,
            final(self).rec().entry == old(self).rec().entry, final(self).payload() == old(self).payload(),
    { unimplemented!() }
    // the six impls are `&mut self.record`
    #[verifier::external_body]
    pub fn get_record_mut(&mut self) -> (r: &mut DnsRecord)
        ensures *r == old(self).rec(), final(self).rec() == *final(r), final(self).payload() == old(self).payload(),
    { unimplemented!() }
    // contract of the trait default updated_refresh_time (unit lifetime) plus: nothing but the refresh mark is touched
    #[verifier::external_body]
    pub fn updated_refresh_time(&mut self, now: u64) -> (r: Option<u64>)
        requires sane(old(self).rec()),
        ensures
            r is Some <==> (now < old(self).rec().expires && now >= old(self).rec().refresh),
            r is Some ==> r->Some_0 == final(self).rec().refresh,
            r is None ==> final(self).rec() == old(self).rec(),
            final(self).rec() == (DnsRecord { refresh: final(self).rec().refresh, ..old(self).rec() }),
            r is Some && old(self).rec().ttl >= 1 && mark_idx(old(self).rec()) < 4 ==> mark_idx(final(self).rec()) == mark_idx(old(self).rec()) + 1,
            final(self).payload() == old(self).payload(),
    { unimplemented!() }
    #[verifier::external_body]
    pub fn get_record(&self) -> (r: &DnsRecord) ensures *r == self.rec() { unimplemented!() }
    #[verifier::external_body]
    pub fn matches(&self, other: &DnsRecordDyn) -> (r: bool) ensures r == self.matches_spec(other) { unimplemented!() }
    // `x.any().downcast_ref::<DnsAddress / DnsPointer>()` (dyn Any; assumed)
    #[verifier::external_body]
    pub fn as_addr(&self) -> (r: Option<&DnsAddress>)
        ensures r is Some <==> payload_intf(self.payload()) is Some, r is Some ==> r->Some_0.interface_id.index == payload_intf(self.payload())->Some_0,
    { unimplemented!() }
    #[verifier::external_body]
    pub fn as_ptr(&self) -> (r: Option<&DnsPointer>)
        ensures r is Some <==> payload_alias(self.payload()) is Some, r is Some ==> r->Some_0.alias@ == payload_alias(self.payload())->Some_0,
    { unimplemented!() }
}
pub open spec fn rec_name(r: DnsRecord) -> Seq<char> { if r.new_name is Some { r.new_name->Some_0@ } else { r.entry.name@ } }
pub assume_specification<T: ?Sized, A: core::alloc::Allocator> [<Box<T, A> as core::convert::AsRef<T>>::as_ref] (b: &Box<T, A>) -> (r: &T)
    ensures r == &**b;
pub uninterp spec fn lower(s: Seq<char>) -> Seq<char>;
#[verifier::external_body]
pub broadcast proof fn axiom_string_ext(a: String, b: String)
    ensures #![trigger a@, b@] a@ == b@ ==> a == b,
{}
pub assume_specification [str::to_lowercase] (s: &str) -> (r: String)
    ensures r@ == lower(s@);
#[verifier::external_body]
pub fn split_sub_domain(domain: &str) -> (r: (&str, Option<&str>)) { unimplemented!() }
#[verifier::external_body]
pub fn vx_contains_str<V>(m: &HashMap<String, V>, k: &str) -> (r: bool)
    ensures r == (exists|key: String| key@ == k@ && m@.contains_key(key)),
{ unimplemented!() }
// `map.entry(key).or_default()`: the value stored under the key, an empty one being stored first if there was none;
// when the returned borrow ends the map holds what was written through it
#[verifier::external_body]
pub fn vx_entry_or_default<'a, T>(m: &'a mut HashMap<String, Vec<T>>, k: String) -> (r: &'a mut Vec<T>)
    ensures
        old(m)@.contains_key(k) ==> *r == old(m)@[k],
        !old(m)@.contains_key(k) ==> r@ == Seq::<T>::empty(),
        final(m)@ == old(m)@.insert(k, *final(r)),
{ unimplemented!() }
// `vec.iter_mut()`: the elements in order; each element's final value is what was written through its item borrow
#[verifier::external_body]
pub fn vx_vec_iter_mut<'a, T>(v: &'a mut Vec<T>) -> (r: core::slice::IterMut<'a, T>)
    ensures
        vstd::std_specs::iter::IteratorSpec::obeys_prophetic_iter_laws(&r), vstd::std_specs::iter::IteratorSpec::decrease(&r) is Some,
        vstd::std_specs::iter::IteratorSpec::remaining(&r).len() == old(v)@.len(),
        forall|i: int| 0 <= i < old(v)@.len() ==> *(#[trigger] vstd::std_specs::iter::IteratorSpec::remaining(&r)[i]) == old(v)@[i],
        final(v)@.len() == old(v)@.len(),
        forall|i: int| 0 <= i < old(v)@.len() ==> #[trigger] final(v)@[i] == *final(vstd::std_specs::iter::IteratorSpec::remaining(&r)[i]),
{ unimplemented!() }
// `vec.iter_mut().enumerate().find(|(_, r)| P(r))`: index of and borrow of the first element satisfying P
#[verifier::external_body]
pub fn vx_find_mut<'a, T, F: Fn(&T) -> bool>(v: &'a mut Vec<T>, f: F) -> (r: Option<(usize, &'a mut T)>)
    requires forall|x: &T| #[trigger] f.requires((x,)),
    ensures
        r is Some ==> r->Some_0.0 < old(v)@.len() && *r->Some_0.1 == old(v)@[r->Some_0.0 as int] && f.ensures((&old(v)@[r->Some_0.0 as int],), true)
            && (forall|j: int| 0 <= j < r->Some_0.0 ==> f.ensures((&#[trigger] old(v)@[j],), false))
            && final(v)@ == old(v)@.update(r->Some_0.0 as int, *final(r->Some_0.1)),
        r is None ==> (forall|j: int| 0 <= j < old(v)@.len() ==> f.ensures((&#[trigger] old(v)@[j],), false)) && *final(v) == *old(v),
{ unimplemented!() }

// ---- what the statement (C11, C03) says about cache-flush ----
// the incoming record has the cache-flush bit and `r` is another record of the same type and class (for addresses: learnt on
// the same interface) that is more than one second old
pub open spec fn must_flush(r: DnsRecordIntf, inc: &DnsRecordDyn, now: u64) -> bool {
    inc.rec().entry.cache_flush && same_rrset(r, inc) && now > r.record.rec().created + 1000
}
pub open spec fn same_rrset(r: DnsRecordIntf, inc: &DnsRecordDyn) -> bool {
    r.record.rec().entry.class == inc.rec().entry.class && r.record.rec().entry.ty == inc.rec().entry.ty
    && (is_addr_type(inc.rec().entry.ty) && payload_intf(r.record.payload()) is Some && payload_intf(inc.payload()) is Some ==> payload_intf(r.record.payload()) == payload_intf(inc.payload()))
}
pub open spec fn is_addr_type(t: RRType) -> bool { t == RRType::A || t == RRType::AAAA }
pub open spec fn min_u64(a: u64, b: u64) -> u64 { if a < b { a } else { b } }
// `b` is `a` after the flush step: its life ends now + 1000 at the latest if it must be flushed, and it is untouched otherwise
pub open spec fn flush_step(a: DnsRecordIntf, b: DnsRecordIntf, inc: &DnsRecordDyn, now: u64) -> bool {
    b.src_intf == a.src_intf && b.record.payload() == a.record.payload()
    && (if must_flush(a, inc, now) { b.record.rec() == (DnsRecord { expires: min_u64(a.record.rec().expires, (now + 1000) as u64), ..a.record.rec() }) } else { b.record.rec() == a.record.rec() })
}
pub open spec fn all_sane(m: Map<String, Vec<DnsRecordIntf>>) -> bool {
    forall|k: String, i: int| m.contains_key(k) && 0 <= i < m[k]@.len() ==> sane((#[trigger] m[k]@[i]).record.rec())
}

// ---- the abstract view the contract of add_or_update is stated over ----
pub open spec fn stored_type(t: RRType) -> bool { t == RRType::PTR || t == RRType::SRV || t == RRType::TXT || t == RRType::A || t == RRType::AAAA || t == RRType::NSEC }
pub open spec fn sel(c: DnsCache, t: RRType) -> Map<String, Vec<DnsRecordIntf>> {
    if t == RRType::PTR { c.ptr@ } else if t == RRType::SRV { c.srv@ } else if t == RRType::TXT { c.txt@ } else if is_addr_type(t) { c.addr@ } else { c.nsec@ }
}
// the String with these characters (Strings with equal characters are equal: axiom_string_ext)
pub uninterp spec fn key_string(s: Seq<char>) -> String;
#[verifier::external_body]
pub broadcast proof fn axiom_key_string(s: Seq<char>)
    ensures #[trigger] key_string(s)@ == s,
{}
// the map key of a record: its name, lower-cased for address records
pub open spec fn key_of(inc: &DnsRecordDyn) -> String {
    if is_addr_type(inc.rec().entry.ty) { key_string(lower(rec_name(inc.rec()))) } else { key_string(rec_name(inc.rec())) }
}
// the records held for the incoming record's name and type
pub open spec fn list_for(c: DnsCache, inc: &DnsRecordDyn) -> Seq<DnsRecordIntf> {
    if sel(c, inc.rec().entry.ty).contains_key(key_of(inc)) { sel(c, inc.rec().entry.ty)[key_of(inc)]@ } else { Seq::empty() }
}
pub open spec fn refreshed(a: DnsRecordIntf, b: DnsRecordIntf, inc: &DnsRecordDyn) -> bool {
    b.src_intf == a.src_intf && b.record.payload() == a.record.payload() && b.record.rec().entry == a.record.rec().entry
    && fresh(b.record.rec()) && b.record.rec().ttl == inc.rec().ttl && b.record.rec().created == inc.rec().created
}
pub open spec fn none_matches(l: Seq<DnsRecordIntf>, n: int, inc: &DnsRecordDyn) -> bool { forall|j: int| 0 <= j < n ==> !(#[trigger] l[j]).record.matches_spec(inc) }
// the held copy of the incoming record (first match) gets the new TTL, every other record goes through the flush step
pub open spec fn updated_in_place(l0: Seq<DnsRecordIntf>, l1: Seq<DnsRecordIntf>, i: int, inc: &DnsRecordDyn, now: u64) -> bool {
    0 <= i < l0.len() && l0[i].record.matches_spec(inc) && none_matches(l0, i, inc) && l1.len() == l0.len()
    && refreshed(l0[i], l1[i], inc)
    && forall|j: int| 0 <= j < l0.len() && j != i ==> flush_step(l0[j], #[trigger] l1[j], inc, now)
}
pub open spec fn is_first_match(l: Seq<DnsRecordIntf>, i: int, inc: &DnsRecordDyn) -> bool { 0 <= i < l.len() && l[i].record.matches_spec(inc) && none_matches(l, i, inc) }
pub open spec fn first_match(l: Seq<DnsRecordIntf>, inc: &DnsRecordDyn) -> int { choose|i: int| is_first_match(l, i, inc) }
pub proof fn lemma_first_match_unique(l: Seq<DnsRecordIntf>, i: int, inc: &DnsRecordDyn)
    requires is_first_match(l, i, inc),
    ensures first_match(l, inc) == i,
{
    let k = first_match(l, inc);
    assert(is_first_match(l, k, inc));
    if k < i { assert(!l[k].record.matches_spec(inc)); }
    if i < k { assert(!l[i].record.matches_spec(inc)); }
}
// no held copy: the incoming record is put in front, every held record goes through the flush step
pub open spec fn inserted_in_front(l0: Seq<DnsRecordIntf>, l1: Seq<DnsRecordIntf>, inc: &DnsRecordDyn, intf: &MyIntf, now: u64) -> bool {
    none_matches(l0, l0.len() as int, inc) && l1.len() == l0.len() + 1
    && l1[0].record.rec() == inc.rec() && l1[0].record.payload() == inc.payload() && l1[0].src_intf.index == intf.index && l1[0].src_intf.name@ == intf.name@
    && forall|j: int| 0 <= j < l0.len() ==> flush_step(l0[j], #[trigger] l1[j + 1], inc, now)
}
pub open spec fn shortened_some(l0: Seq<DnsRecordIntf>, n: int, inc: &DnsRecordDyn, now: u64) -> bool {
    exists|j: int| 0 <= j < n && must_flush(#[trigger] l0[j], inc, now) && l0[j].record.rec().expires > now + 1000
}
pub open spec fn cache_sane(c: DnsCache) -> bool { all_sane(c.ptr@) && all_sane(c.srv@) && all_sane(c.txt@) && all_sane(c.addr@) && all_sane(c.nsec@) }
