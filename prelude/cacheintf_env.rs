// ---- environment of unit `cacheintf` (trusted), on top of cacheadd_env.rs / cachewalk_env.rs ----
// the derived PartialEq of InterfaceId: same name and same index
impl PartialEq for InterfaceId {
    #[verifier::external_body]
    fn eq(&self, other: &Self) -> (r: bool) ensures r == (self.name@ == other.name@ && self.index == other.index) { unimplemented!() }
}
pub open spec fn on_intf(r: DnsRecordIntf, id: InterfaceId) -> bool { r.src_intf.name@ == id.name@ && r.src_intf.index == id.index }
pub open spec fn off_intf(id: InterfaceId) -> spec_fn(DnsRecordIntf) -> bool { |r: DnsRecordIntf| !on_intf(r, id) }
// `for x in hash_set` (consuming): every element once, in some order
#[verifier::external_body]
pub fn vx_set_into_vec<K>(s: HashSet<K>) -> (r: Vec<K>)
    ensures forall|x: K| #[trigger] s@.contains(x) ==> r@.contains(x), forall|j: int| 0 <= j < r@.len() ==> s@.contains(#[trigger] r@[j]),
{ unimplemented!() }
// `records.iter().any(|r| P(r))`
#[verifier::external_body]
pub fn vx_any<T, F: Fn(&T) -> bool>(v: &Vec<T>, f: F, p: Ghost<spec_fn(T) -> bool>) -> (r: bool)
    requires forall|i: int| 0 <= i < v@.len() ==> f.requires((&#[trigger] v@[i],)), forall|x: &T, b: bool| #[trigger] f.ensures((x,), b) ==> b == p@(*x),
    ensures r == exists|i: int| 0 <= i < v@.len() && p@(#[trigger] v@[i]),
{ unimplemented!() }
// `removed_instances.values().flatten().collect::<HashSet<&String>>()` followed by `map.retain(|k, _| !all.contains(k))`:
// the keys listed in any value set of `by_type` are removed from `m`
pub open spec fn listed_anywhere(by_type: Map<String, HashSet<String>>, x: String) -> bool { exists|ty: String| #[trigger] by_type.contains_key(ty) && by_type[ty]@.contains(x) }
#[verifier::external_body]
pub struct AllRemoved<'a> { x: core::marker::PhantomData<&'a u8> }
impl<'a> AllRemoved<'a> {
    pub uninterp spec fn view(&self) -> Set<String>;
    #[verifier::external_body]
    pub fn contains(&self, k: &String) -> (r: bool) ensures r == self@.contains(*k) { unimplemented!() }
}
#[verifier::external_body]
pub fn vx_all_values<'a>(by_type: &'a HashMap<String, HashSet<String>>) -> (r: AllRemoved<'a>)
    ensures forall|x: String| r@.contains(x) <==> listed_anywhere(by_type@, x),
{ unimplemented!() }
// `map.retain(|k, _| P(k))` with a closure that only reads
#[verifier::external_body]
pub fn vx_map_retain_keys<V, F: Fn(&String) -> bool>(m: &mut HashMap<String, V>, f: F, p: Ghost<spec_fn(String) -> bool>)
    requires forall|k: &String| #[trigger] f.requires((k,)), forall|k: &String, b: bool| #[trigger] f.ensures((k,), b) ==> b == p@(*k),
    ensures
        forall|k: String| #[trigger] final(m)@.contains_key(k) <==> old(m)@.contains_key(k) && p@(k),
        forall|k: String| #[trigger] final(m)@.contains_key(k) ==> final(m)@[k] == old(m)@[k],
{ unimplemented!() }
// `&str == String`: same characters
#[verifier::external_body]
pub fn vx_str_eq_string(a: &str, b: &String) -> (r: bool) ensures r == (a@ == b@) { unimplemented!() }
// iteration order of the HashMap stand-in: every key exactly once, with its value (textbook; `iter()` states the first part)
pub open spec fn entries_wf<V>(m: HashMap<String, V>) -> bool {
    (forall|i: int| 0 <= i < m.entries().len() ==> m@.contains_key((#[trigger] m.entries()[i]).0) && m@[m.entries()[i].0] == m.entries()[i].1)
    && (forall|k: String| m@.contains_key(k) ==> exists|i: int| 0 <= i < m.entries().len() && (#[trigger] m.entries()[i]).0 == k)
    && (forall|i: int, j: int| 0 <= i < j < m.entries().len() ==> (#[trigger] m.entries()[i]).0 != (#[trigger] m.entries()[j]).0)
}
#[verifier::external_body]
pub proof fn axiom_entries_wf<V>(m: HashMap<String, V>)
    ensures entries_wf(m),
{}
// what the interface purge does to one record map: a key survives iff it is not dropped wholesale and keeps a record learnt
// elsewhere; a surviving list is the old one without the records learnt on the interface, in order
pub open spec fn purged(m0: Map<String, Vec<DnsRecordIntf>>, m1: Map<String, Vec<DnsRecordIntf>>, id: InterfaceId, dropped: spec_fn(String) -> bool) -> bool {
    (forall|k: String| #[trigger] m1.contains_key(k) <==> m0.contains_key(k) && !dropped(k) && m0[k]@.filter(off_intf(id)).len() > 0)
    && (forall|k: String| #[trigger] m1.contains_key(k) ==> m1[k]@ == m0[k]@.filter(off_intf(id)))
}
pub open spec fn each_filtered(m0: Map<String, Vec<DnsRecordIntf>>, m1: Map<String, Vec<DnsRecordIntf>>, id: InterfaceId) -> bool {
    m1.dom() == m0.dom() && forall|k: String| #[trigger] m1.contains_key(k) ==> m1[k]@ == m0[k]@.filter(off_intf(id))
}
pub proof fn lemma_map_after_iter_mut(m0: HashMap<String, Vec<DnsRecordIntf>>, m1: HashMap<String, Vec<DnsRecordIntf>>, id: InterfaceId)
    requires
        m1.entries().len() == m0.entries().len(),
        forall|e: int| 0 <= e < m0.entries().len() ==> (#[trigger] m1.entries()[e]).0 == m0.entries()[e].0 && m1.entries()[e].1@ == m0.entries()[e].1@.filter(off_intf(id)),
    ensures each_filtered(m0@, m1@, id),
{
    axiom_entries_wf(m0);
    axiom_entries_wf(m1);
    assert forall|k: String| m1@.contains_key(k) implies m0@.contains_key(k) by {
        let i = choose|i: int| 0 <= i < m1.entries().len() && (#[trigger] m1.entries()[i]).0 == k;
        assert(m0.entries()[i].0 == k);
    }
    assert forall|k: String| m0@.contains_key(k) implies m1@.contains_key(k) by {
        let i = choose|i: int| 0 <= i < m0.entries().len() && (#[trigger] m0.entries()[i]).0 == k;
        assert(m1.entries()[i].0 == k);
    }
    assert(m1@.dom() =~= m0@.dom());
    assert forall|k: String| #[trigger] m1@.contains_key(k) implies m1@[k]@ == m0@[k]@.filter(off_intf(id)) by {
        let i = choose|i: int| 0 <= i < m1.entries().len() && (#[trigger] m1.entries()[i]).0 == k;
        assert(m0.entries()[i].0 == k);
        assert(m1@[k] == m1.entries()[i].1);
        assert(m0@[k] == m0.entries()[i].1);
    }
}
pub type Ents = Seq<(String, Vec<DnsRecordIntf>)>;
// one of the first n entries is x's and loses a record to the purge
pub open spec fn lost_in(ents: Ents, n: int, x: String, id: InterfaceId) -> bool {
    exists|e: int| 0 <= e < n && e < ents.len() && (#[trigger] ents[e]).0 == x && ents[e].1@.filter(off_intf(id)).len() != ents[e].1@.len()
}
pub open spec fn lost(m: Map<String, Vec<DnsRecordIntf>>, x: String, id: InterfaceId) -> bool { m.contains_key(x) && m[x]@.filter(off_intf(id)).len() != m[x]@.len() }
// one of the SRV records walked so far is x's and targets a host (compared lower-cased) that lost an address
pub open spec fn hit_in(sents: Ents, ne: int, nj: int, x: String, aff: Set<String>) -> bool {
    exists|e: int, j: int| 0 <= e < sents.len() && 0 <= j < sents[e].1@.len() && handled(e, j, ne, nj) && sents[e].0 == x
        && payload_srv_host((#[trigger] sents[e].1@[j]).record.payload()) is Some && aff.contains(key_string(lower(payload_srv_host(sents[e].1@[j].record.payload())->Some_0)))
}
pub proof fn lemma_lost_in_is_lost(m: HashMap<String, Vec<DnsRecordIntf>>, x: String, id: InterfaceId)
    ensures lost_in(m.entries(), m.entries().len() as int, x, id) <==> lost(m@, x, id),
{
    axiom_entries_wf(m);
    if lost(m@, x, id) {
        let e = choose|e: int| 0 <= e < m.entries().len() && (#[trigger] m.entries()[e]).0 == x;
        assert(m@[x] == m.entries()[e].1);
    }
    if lost_in(m.entries(), m.entries().len() as int, x, id) {
        let e = choose|e: int| 0 <= e < m.entries().len() && (#[trigger] m.entries()[e]).0 == x && m.entries()[e].1@.filter(off_intf(id)).len() != m.entries()[e].1@.len();
        assert(m@[x] == m.entries()[e].1);
    }
}
pub open spec fn targets_affected(m: Map<String, Vec<DnsRecordIntf>>, x: String, aff: Set<String>) -> bool {
    m.contains_key(x) && exists|j: int| 0 <= j < m[x]@.len() && payload_srv_host((#[trigger] m[x]@[j]).record.payload()) is Some && aff.contains(key_string(lower(payload_srv_host(m[x]@[j].record.payload())->Some_0)))
}
pub proof fn lemma_hit_in_all(m: HashMap<String, Vec<DnsRecordIntf>>, x: String, aff: Set<String>)
    ensures hit_in(m.entries(), m.entries().len() as int, 0, x, aff) <==> targets_affected(m@, x, aff),
{
    axiom_entries_wf(m);
    let ents = m.entries();
    if hit_in(ents, ents.len() as int, 0, x, aff) {
        let (e, j) = choose|e: int, j: int| 0 <= e < ents.len() && 0 <= j < ents[e].1@.len() && handled(e, j, ents.len() as int, 0) && ents[e].0 == x
            && payload_srv_host((#[trigger] ents[e].1@[j]).record.payload()) is Some && aff.contains(key_string(lower(payload_srv_host(ents[e].1@[j].record.payload())->Some_0)));
        assert(m@[x] == ents[e].1);
        assert(payload_srv_host(m@[x]@[j].record.payload()) is Some);
    }
    if targets_affected(m@, x, aff) {
        let e = choose|e: int| 0 <= e < ents.len() && (#[trigger] ents[e]).0 == x;
        assert(m@[x] == ents[e].1);
        let j = choose|j: int| 0 <= j < m@[x]@.len() && payload_srv_host((#[trigger] m@[x]@[j]).record.payload()) is Some && aff.contains(key_string(lower(payload_srv_host(m@[x]@[j].record.payload())->Some_0)));
        assert(handled(e, j, ents.len() as int, 0));
        assert(payload_srv_host(ents[e].1@[j].record.payload()) is Some);
    }
}
// `set.contains(q)` where q may be a &String or a &str (std: Borrow<str>)
pub trait VxStr {
    spec fn vx_view(&self) -> Seq<char>;
}
impl VxStr for String {
    open spec fn vx_view(&self) -> Seq<char> { self@ }
}
impl VxStr for str {
    open spec fn vx_view(&self) -> Seq<char> { self@ }
}
#[verifier::external_body]
pub fn vx_set_contains_q<Q: VxStr + ?Sized>(s: &HashSet<String>, q: &Q) -> (r: bool)
    ensures r == s@.contains(key_string(q.vx_view())),
{ unimplemented!() }
