// ---- environment of unit `cacherefresh` (trusted), on top of cacheadd_env.rs / cachewalk_env.rs ----
// ---- refresh_due_srv_txt / refresh_due_hosts ----
#[verifier::external_body]
pub fn vx_get_str<'a, V>(m: &'a HashMap<String, V>, k: &str) -> (r: Option<&'a V>)
    ensures r is Some <==> m_has(m@, k@), r is Some ==> *r->Some_0 == m@[key_string(k@)],
{ unimplemented!() }
// `record.any().downcast_ref::<DnsPointer>().map(|ptr| ptr.alias())`
#[verifier::external_body]
pub fn vx_ptr_alias(r: &DnsRecordBox) -> (o: Option<&str>)
    ensures o is Some <==> payload_alias(r.payload()) is Some, o is Some ==> o->Some_0@ == payload_alias(r.payload())->Some_0,
{ unimplemented!() }
// `map.entry(k).and_modify(|v| v.push(t)).or_insert(vec![t])`
#[verifier::external_body]
pub fn vx_entry_push(m: &mut HashMap<String, Vec<RRType>>, k: String, t: RRType)
    ensures
        final(m)@.dom() == old(m)@.dom().insert(k),
        forall|j: String| j != k && old(m)@.contains_key(j) ==> #[trigger] final(m)@[j] == old(m)@[j],
        final(m)@[k]@ == (if old(m)@.contains_key(k) { old(m)@[k]@ } else { Seq::<RRType>::empty() }).push(t),
{ unimplemented!() }
impl HashSet<u64> {
    // `set.extend(other_set)`
    #[verifier::external_body]
    pub fn extend_set(&mut self, other: HashSet<u64>) ensures final(self)@ == old(self)@.union(other@) { unimplemented!() }
}
// an unexpired PTR record among the first n points to instance x
pub open spec fn listed_live(pl: Seq<DnsRecordIntf>, n: int, x: Seq<char>, now: u64) -> bool {
    exists|i: int| 0 <= i < n && !(now >= (#[trigger] pl[i]).record.rec().expires) && alias_of(pl[i]) == Some(x)
}
// only refresh marks moved, and only on records that were due and unexpired on entry
pub open spec fn marks_only(a: DnsRecordIntf, b: DnsRecordIntf, now: u64) -> bool {
    b.src_intf == a.src_intf && b.record.payload() == a.record.payload() && b.record.rec() == (DnsRecord { refresh: b.record.rec().refresh, ..a.record.rec() })
    && (!due_and_live(a.record.rec(), now) ==> b.record.rec() == a.record.rec())
}
#[verifier::opaque]
pub open spec fn marks_only_map(m: Map<String, Vec<DnsRecordIntf>>, m0: Map<String, Vec<DnsRecordIntf>>, now: u64) -> bool {
    m.dom() == m0.dom() && forall|k: String| #[trigger] m.contains_key(k) ==> m[k]@.len() == m0[k]@.len() && forall|i: int| 0 <= i < m0[k]@.len() ==> marks_only(m0[k]@[i], #[trigger] m[k]@[i], now)
}
#[verifier::opaque]
pub open spec fn unvisited_same(m: Map<String, Vec<DnsRecordIntf>>, m0: Map<String, Vec<DnsRecordIntf>>, insts: Seq<&str>, n: int) -> bool {
    forall|k: String| #[trigger] m0.contains_key(k) && (forall|j: int| 0 <= j < n ==> (#[trigger] insts[j])@ != k@) ==> m[k] == m0[k]
}
pub open spec fn due_some(l: Seq<DnsRecordIntf>, now: u64) -> bool { exists|i: int| 0 <= i < l.len() && due_and_live((#[trigger] l[i]).record.rec(), now) }
pub open spec fn reported_for(rd: Map<String, Vec<RRType>>, x: Seq<char>, t: RRType) -> bool { rd.contains_key(key_string(x)) && rd[key_string(x)]@.contains(t) }
#[verifier::opaque]
pub open spec fn moved_marks_listed(m: Map<String, Vec<DnsRecordIntf>>, m0: Map<String, Vec<DnsRecordIntf>>, ts: Set<u64>) -> bool {
    forall|k: String, i: int| m0.contains_key(k) && 0 <= i < m0[k]@.len() && (#[trigger] m[k]@[i]).record.rec().refresh != m0[k]@[i].record.rec().refresh ==> ts.contains(m[k]@[i].record.rec().refresh)
}
pub proof fn lemma_entry_push(pre: Map<String, Vec<RRType>>, post: Map<String, Vec<RRType>>, k: String, t: RRType)
    requires
        post.dom() == pre.dom().insert(k),
        forall|j: String| j != k && pre.contains_key(j) ==> #[trigger] post[j] == pre[j],
        post[k]@ == (if pre.contains_key(k) { pre[k]@ } else { Seq::<RRType>::empty() }).push(t),
    ensures
        forall|kk: String, tt: RRType| pre.contains_key(kk) && pre[kk]@.contains(tt) ==> post.contains_key(kk) && #[trigger] post[kk]@.contains(tt),
        post.contains_key(k) && post[k]@.contains(t),
{
    assert forall|kk: String, tt: RRType| pre.contains_key(kk) && pre[kk]@.contains(tt) implies post.contains_key(kk) && #[trigger] post[kk]@.contains(tt) by {
        if kk != k { assert(post[kk] == pre[kk]); }
        else { let w = choose|w: int| 0 <= w < pre[k]@.len() && pre[k]@[w] == tt; assert(post[k]@[w] == tt); }
    }
    assert(post[k]@[post[k]@.len() - 1] == t);
}

// ---- refresh_due_hosts ----
// `record.any().downcast_ref::<DnsSrv>().map(|srv| srv.host().to_string())`
#[verifier::external_body]
pub fn vx_srv_host_string(r: &DnsRecordBox) -> (o: Option<String>)
    ensures o is Some <==> payload_srv_host(r.payload()) is Some, o is Some ==> o->Some_0@ == payload_srv_host(r.payload())->Some_0,
{ unimplemented!() }
impl HashSet<String> {
    #[verifier::external_body]
    pub fn extend_set(&mut self, other: HashSet<String>) ensures final(self)@ == old(self)@.union(other@) { unimplemented!() }
}
#[verifier::external_body]
pub fn vx_set_into_vec<K>(s: HashSet<K>) -> (r: Vec<K>)
    ensures forall|x: K| #[trigger] s@.contains(x) ==> r@.contains(x), forall|j: int| 0 <= j < r@.len() ==> s@.contains(#[trigger] r@[j]),
{ unimplemented!() }
// some SRV record among the first n of the list targets host h
pub open spec fn targets_host(l: Seq<DnsRecordIntf>, n: int, h: Seq<char>) -> bool {
    exists|i: int| 0 <= i < n && payload_srv_host((#[trigger] l[i]).record.payload()) == Some(h)
}
// host h is the target of an SRV record of an instance that an unexpired PTR record of the type points to
pub open spec fn browsed_host(plist: Seq<DnsRecordIntf>, srv: Map<String, Vec<DnsRecordIntf>>, h: Seq<char>, now: u64) -> bool {
    exists|x: Seq<char>| #[trigger] listed_live(plist, plist.len() as int, x, now) && targets_host(list_in(srv, x), list_in(srv, x).len() as int, h)
}
#[verifier::opaque]
pub open spec fn unvisited_same_lower(m: Map<String, Vec<DnsRecordIntf>>, m0: Map<String, Vec<DnsRecordIntf>>, hosts: Seq<String>, n: int) -> bool {
    forall|k: String| #[trigger] m0.contains_key(k) && (forall|j: int| 0 <= j < n ==> lower((#[trigger] hosts[j])@) != k@) ==> m[k] == m0[k]
}
// a host name with the same lower-cased spelling as h is in the set
pub open spec fn reported_host(rd: Set<String>, h: Seq<char>) -> bool { exists|r: String| #[trigger] rd.contains(r) && lower(r@) == lower(h) }
// ---- "nothing is reported without cause" (refresh_due_srv_txt) ----
// every reported (instance, type) pair has a cause: a record of that type that was due and unexpired on entry
#[verifier::opaque]
pub open spec fn cause_ok(rd: Map<String, Vec<RRType>>, s0: Map<String, Vec<DnsRecordIntf>>, t0: Map<String, Vec<DnsRecordIntf>>, now: u64) -> bool {
    forall|kk: String, tt: RRType| rd.contains_key(kk) && #[trigger] rd[kk]@.contains(tt) ==>
        (tt == RRType::SRV && due_some(list_in(s0, kk@), now)) || (tt == RRType::TXT && due_some(list_in(t0, kk@), now))
}
// every reported instance is one of the first n listed ones
#[verifier::opaque]
pub open spec fn from_insts(rd: Map<String, Vec<RRType>>, insts: Seq<&str>, n: int) -> bool {
    forall|kk: String| #[trigger] rd.contains_key(kk) ==> exists|j: int| 0 <= j < n && (#[trigger] insts[j])@ == kk@
}
pub proof fn lemma_cause_push(pre: Map<String, Vec<RRType>>, post: Map<String, Vec<RRType>>, k: String, t: RRType, s0: Map<String, Vec<DnsRecordIntf>>, t0: Map<String, Vec<DnsRecordIntf>>, now: u64, insts: Seq<&str>, n: int)
    requires
        post.dom() == pre.dom().insert(k),
        forall|j: String| j != k && pre.contains_key(j) ==> #[trigger] post[j] == pre[j],
        post[k]@ == (if pre.contains_key(k) { pre[k]@ } else { Seq::<RRType>::empty() }).push(t),
        cause_ok(pre, s0, t0, now), from_insts(pre, insts, n + 1),
        (t == RRType::SRV && due_some(list_in(s0, k@), now)) || (t == RRType::TXT && due_some(list_in(t0, k@), now)),
        0 <= n < insts.len(), insts[n]@ == k@,
    ensures cause_ok(post, s0, t0, now), from_insts(post, insts, n + 1),
{
    reveal(cause_ok); reveal(from_insts);
    assert forall|kk: String, tt: RRType| post.contains_key(kk) && #[trigger] post[kk]@.contains(tt) implies
        (tt == RRType::SRV && due_some(list_in(s0, kk@), now)) || (tt == RRType::TXT && due_some(list_in(t0, kk@), now)) by {
        if kk != k {
            assert(pre.contains_key(kk));
            assert(post[kk] == pre[kk]);
        } else {
            let base = if pre.contains_key(k) { pre[k]@ } else { Seq::<RRType>::empty() };
            let w = choose|w: int| 0 <= w < post[k]@.len() && post[k]@[w] == tt;
            if w < base.len() { assert(base[w] == tt); assert(pre.contains_key(k) && pre[k]@.contains(tt)); } else { assert(tt == t); }
        }
    }
    assert forall|kk: String| #[trigger] post.contains_key(kk) implies exists|j: int| 0 <= j < n + 1 && (#[trigger] insts[j])@ == kk@ by {
        if kk != k {
            assert(pre.contains_key(kk));
            let j = choose|j: int| 0 <= j < n + 1 && (#[trigger] insts[j])@ == kk@;
            assert(insts[j]@ == kk@);
        } else { assert(insts[n]@ == kk@); }
    }
}
pub proof fn lemma_from_insts_mono(rd: Map<String, Vec<RRType>>, insts: Seq<&str>, n: int)
    requires from_insts(rd, insts, n),
    ensures from_insts(rd, insts, n + 1),
{
    reveal(from_insts);
    assert forall|kk: String| #[trigger] rd.contains_key(kk) implies exists|j: int| 0 <= j < n + 1 && (#[trigger] insts[j])@ == kk@ by {
        let j = choose|j: int| 0 <= j < n && (#[trigger] insts[j])@ == kk@;
        assert(insts[j]@ == kk@);
    }
}
// a record that is due and unexpired after the walk was due and unexpired on entry (only marks of such records move)
pub proof fn lemma_due_now_was_due(cur: Map<String, Vec<DnsRecordIntf>>, m0: Map<String, Vec<DnsRecordIntf>>, x: Seq<char>, now: u64)
    requires marks_only_map(cur, m0, now), m_has(cur, x), some_due(cur[key_string(x)]@, cur[key_string(x)]@.len() as int, now),
    ensures due_some(list_in(m0, x), now),
{
    reveal(marks_only_map);
    let k = key_string(x);
    assert(cur.contains_key(k) && m0.contains_key(k));
    let i = choose|i: int| 0 <= i < cur[k]@.len() && due_and_live((#[trigger] cur[k]@[i]).record.rec(), now);
    assert(marks_only(m0[k]@[i], cur[k]@[i], now));
    assert(due_and_live(m0[k]@[i].record.rec(), now));
    assert(list_in(m0, x)[i] == m0[k]@[i]);
}
// ---- "no host is reported without cause" (refresh_due_hosts) ----
#[verifier::opaque]
pub open spec fn host_cause_ok(rd: Set<String>, a0: Map<String, Vec<DnsRecordIntf>>, now: u64) -> bool {
    forall|r: String| #[trigger] rd.contains(r) ==> due_some(list_in(a0, lower(r@)), now)
}
pub proof fn lemma_host_cause_insert(pre: Set<String>, h: String, a0: Map<String, Vec<DnsRecordIntf>>, now: u64)
    requires host_cause_ok(pre, a0, now), due_some(list_in(a0, lower(h@)), now),
    ensures host_cause_ok(pre.insert(h), a0, now),
{
    reveal(host_cause_ok);
}
