// ---- environment of unit `cachewalk` (trusted), on top of cacheadd_env.rs ----
#[verifier::external_body] pub struct ScopedIp { x: u8 }
pub uninterp spec fn payload_scoped(p: int) -> ScopedIp;
impl DnsAddress {
    pub uninterp spec fn scoped(&self) -> ScopedIp;
    // `ScopedIp::V4/V6 { addr, interface ids }` built from the address and the interface the record came in on
    #[verifier::external_body]
    pub fn address(&self) -> (r: ScopedIp) ensures r == self.scoped() { unimplemented!() }
}
impl DnsRecordDyn {
    // the address view of a boxed record together with what address() yields for it
    #[verifier::external_body]
    pub fn as_addr_scoped(&self) -> (r: Option<&DnsAddress>)
        ensures r is Some <==> payload_intf(self.payload()) is Some, r is Some ==> r->Some_0.scoped() == payload_scoped(self.payload()),
    { unimplemented!() }
}
pub open spec fn has_str<V>(m: Map<String, V>, s: Seq<char>) -> bool { exists|k: String| k@ == s && m.contains_key(k) }
#[verifier::external_body]
pub fn vx_get_mut_str<'a, V>(m: &'a mut HashMap<String, V>, k: &str) -> (r: Option<&'a mut V>)
    ensures
        m_has(old(m)@, k@) ==> r is Some && *r->Some_0 == old(m)@[key_string(k@)] && final(m)@ == old(m)@.insert(key_string(k@), *final(r->Some_0)),
        !m_has(old(m)@, k@) ==> r is None && *final(m) == *old(m),
{ unimplemented!() }
pub open spec fn m_has<V>(m: Map<String, V>, s: Seq<char>) -> bool { m.contains_key(key_string(s)) }
// `iter.collect::<HashSet<_>>()` of the items pushed in order
#[verifier::external_body]
pub fn vx_collect_set<T>(v: Vec<T>) -> (r: HashSet<T>)
    ensures forall|x: T| #![trigger r@.contains(x)] #![trigger v@.contains(x)] r@.contains(x) <==> v@.contains(x),
{ unimplemented!() }
// a record whose refresh is due and that has not expired (DnsRecord::refresh_due / is_expired, unit lifetime)
pub open spec fn due_and_live(r: DnsRecord, now: u64) -> bool { now >= r.refresh && !(now >= r.expires) }
// one step of refresh_due_hostname_resolutions on one held address record: a due, unexpired record will not ask again
// (refresh mark moved to the nominal end of life), any other record is left alone
pub open spec fn rec_step(a: DnsRecordIntf, b: DnsRecordIntf, now: u64) -> bool {
    b.src_intf == a.src_intf && b.record.payload() == a.record.payload()
    && if due_and_live(a.record.rec(), now) {
        b.record.rec().refresh as int == exp_at(a.record.rec().created, a.record.rec().ttl, 100)
        && b.record.rec().expires == a.record.rec().expires && b.record.rec().created == a.record.rec().created && b.record.rec().ttl == a.record.rec().ttl && b.record.rec().entry == a.record.rec().entry
    } else { b.record.rec() == a.record.rec() }
}
// ... and it is listed (host name as asked, address with its interface) exactly when it was due and unexpired
pub open spec fn listed_step(a: DnsRecordIntf, o: Option<(String, ScopedIp)>, host: Seq<char>, now: u64) -> bool {
    if due_and_live(a.record.rec(), now) { o is Some && o->Some_0.0@ == host && o->Some_0.1 == payload_scoped(a.record.payload()) } else { o is None }
}
pub open spec fn refresh_step(a: DnsRecordIntf, b: DnsRecordIntf, o: Option<(String, ScopedIp)>, host: Seq<char>, now: u64) -> bool {
    rec_step(a, b, now) && listed_step(a, o, host, now)
}
pub open spec fn listed_from(x: (String, ScopedIp), l: Seq<DnsRecordIntf>, n: int, host: Seq<char>, now: u64) -> bool {
    exists|i: int| 0 <= i < n && due_and_live((#[trigger] l[i]).record.rec(), now) && x == (key_string(host), payload_scoped(l[i].record.payload()))
}
pub open spec fn addr_list(c: DnsCache, host: Seq<char>) -> Seq<DnsRecordIntf> { if m_has(c.addr@, host) { c.addr@[key_string(host)]@ } else { Seq::empty() } }
pub open spec fn holds_addresses(m: Map<String, Vec<DnsRecordIntf>>) -> bool {
    forall|k: String, i: int| m.contains_key(k) && 0 <= i < m[k]@.len() ==> payload_intf((#[trigger] m[k]@[i]).record.payload()) is Some
}

// `map.entry(k).or_insert_with(HashSet::new).insert(x)`: x joins the set stored under k (an empty one being stored first)
#[verifier::external_body]
pub fn vx_entry_set_insert<T>(m: &mut HashMap<String, HashSet<T>>, k: String, x: T)
    ensures
        final(m)@.dom() == old(m)@.dom().insert(k),
        forall|j: String| j != k && old(m)@.contains_key(j) ==> #[trigger] final(m)@[j] == old(m)@[j],
        final(m)@[k]@ == (if old(m)@.contains_key(k) { old(m)@[k]@ } else { Set::<T>::empty() }).insert(x),
{ unimplemented!() }
// an address listed under the name it was received with comes from an unexpired record among the first n held for the host
pub open spec fn found_from(k: String, a: ScopedIp, l: Seq<DnsRecordIntf>, n: int, now: u64) -> bool {
    exists|i: int| 0 <= i < n && !(now >= (#[trigger] l[i]).record.rec().expires) && payload_intf(l[i].record.payload()) is Some
        && k@ == rec_name(l[i].record.rec()) && a == payload_scoped(l[i].record.payload())
}

// one step of the refresh_due_* walkers on one held record: a record whose refresh mark has been reached and that has not
// expired moves to its next mark (80 -> 85 -> 90 -> 95 -> end of life) and reports the new mark; any other record is left alone
pub open spec fn mark_rec_step(a: DnsRecordIntf, b: DnsRecordIntf, now: u64) -> bool {
    b.src_intf == a.src_intf && b.record.payload() == a.record.payload()
    && b.record.rec() == (DnsRecord { refresh: b.record.rec().refresh, ..a.record.rec() })
    && if due_and_live(a.record.rec(), now) {
        a.record.rec().ttl >= 1 && mark_idx(a.record.rec()) < 4 ==> mark_idx(b.record.rec()) == mark_idx(a.record.rec()) + 1
    } else { b.record.rec() == a.record.rec() }
}
pub open spec fn mark_step(a: DnsRecordIntf, b: DnsRecordIntf, o: Option<u64>, now: u64) -> bool {
    mark_rec_step(a, b, now) && o == (if due_and_live(a.record.rec(), now) { Some(b.record.rec().refresh) } else { None::<u64> })
}
pub open spec fn list_in(m: Map<String, Vec<DnsRecordIntf>>, name: Seq<char>) -> Seq<DnsRecordIntf> { if m_has(m, name) { m[key_string(name)]@ } else { Seq::empty() } }
pub open spec fn some_due(l: Seq<DnsRecordIntf>, n: int, now: u64) -> bool { exists|i: int| 0 <= i < n && due_and_live((#[trigger] l[i]).record.rec(), now) }

// ---- remove_addrs_on_disabled_intf ----
impl IpType {
    pub const V4: IpType = IpType(0b01);
    pub const V6: IpType = IpType(0b10);
    pub const BOTH: IpType = IpType(0b11);
}
impl DnsRecordDyn {
    // the address view with the interface it was learnt on and the record inside
    #[verifier::external_body]
    pub fn as_addr_full(&self) -> (r: Option<&DnsAddress>)
        ensures r is Some <==> payload_intf(self.payload()) is Some, r is Some ==> r->Some_0.interface_id.index == payload_intf(self.payload())->Some_0 && r->Some_0.record == self.rec(),
    { unimplemented!() }
}
// `vec.retain(|x| P(x))` with a closure that only reads: the elements satisfying P, in order.  `p` is the ghost reading of the
// closure's contract (the closure must decide exactly p)
#[verifier::external_body]
pub fn vx_retain<T, F: Fn(&T) -> bool>(v: &mut Vec<T>, f: F, p: Ghost<spec_fn(T) -> bool>)
    requires forall|x: &T| #[trigger] f.requires((x,)), forall|x: &T, b: bool| #[trigger] f.ensures((x,), b) ==> b == p@(*x),
    ensures final(v)@ == old(v)@.filter(p@),
{ unimplemented!() }
// the statement (C18): an address record learnt on the disabled interface whose family is switched off goes, every other stays
pub open spec fn family_off(t: RRType, ip_type: IpType) -> bool { (t == RRType::A && ip_type.0 & 1 == 1) || (t == RRType::AAAA && ip_type.0 & 2 == 2) }
pub open spec fn stays_on_disable(r: DnsRecordIntf, idx: u32, ip_type: IpType) -> bool {
    payload_intf(r.record.payload()) is Some && !(payload_intf(r.record.payload())->Some_0 == idx && family_off(r.record.rec().entry.ty, ip_type))
}

// ---- evict_expired_addr ----
// `HashMap::retain(f)` / `Vec::retain(f)` visit every element once, in order, and keep those f answers true for.  Where f has
// side effects the call is written out as that loop: the collection is emptied into a sequence (these two shims) and the kept
// elements are put back.
#[verifier::external_body]
pub fn vx_map_take<V>(m: &mut HashMap<String, V>) -> (r: Vec<(String, V)>)
    ensures
        final(m)@ == Map::<String, V>::empty(),
        forall|i: int| 0 <= i < r@.len() ==> old(m)@.contains_key((#[trigger] r@[i]).0) && old(m)@[r@[i].0] == r@[i].1,
        forall|k: String| old(m)@.contains_key(k) ==> exists|i: int| 0 <= i < r@.len() && (#[trigger] r@[i]).0 == k,
        forall|i: int, j: int| 0 <= i < j < r@.len() ==> (#[trigger] r@[i]).0 != (#[trigger] r@[j]).0,
{ unimplemented!() }
#[verifier::external_body]
pub fn vx_vec_take<T>(v: &mut Vec<T>) -> (r: Vec<T>)
    ensures r@ == old(v)@, final(v)@ == Seq::<T>::empty(),
{ unimplemented!() }
pub open spec fn live_at(now: u64) -> spec_fn(DnsRecordIntf) -> bool { |r: DnsRecordIntf| !(now >= r.record.rec().expires) }
pub open spec fn expired_addr(r: DnsRecordIntf, now: u64) -> bool { now >= r.record.rec().expires && payload_intf(r.record.payload()) is Some }
// position (e, i) lies in the part of the map walked so far: the first ne entries, and the first ni records of entry ne
pub open spec fn walked(ents: Seq<(String, Vec<DnsRecordIntf>)>, e: int, i: int, ne: int, ni: int) -> bool {
    0 <= e < ents.len() && 0 <= i < ents[e].1@.len() && (e < ne || (e == ne && i < ni))
}
pub open spec fn evicted_from(k: String, a: ScopedIp, ents: Seq<(String, Vec<DnsRecordIntf>)>, ne: int, ni: int, now: u64) -> bool {
    exists|e: int, i: int| walked(ents, e, i, ne, ni) && expired_addr(#[trigger] ents[e].1@[i], now) && k@ == rec_name(ents[e].1@[i].record.rec()) && a == payload_scoped(ents[e].1@[i].record.payload())
}
pub open spec fn evicted_in(k: String, a: ScopedIp, m: Map<String, Vec<DnsRecordIntf>>, now: u64) -> bool {
    exists|h: String, i: int| m.contains_key(h) && 0 <= i < m[h]@.len() && expired_addr(#[trigger] m[h]@[i], now) && k@ == rec_name(m[h]@[i].record.rec()) && a == payload_scoped(m[h]@[i].record.payload())
}
pub proof fn lemma_filter_step<T>(s: Seq<T>, i: int, p: spec_fn(T) -> bool)
    requires 0 <= i < s.len(),
    ensures s.take(i + 1).filter(p) == (if p(s[i]) { s.take(i).filter(p).push(s[i]) } else { s.take(i).filter(p) }),
{
    let t = s.take(i + 1);
    assert(t.drop_last() == s.take(i));
    assert(t.last() == s[i]);
    reveal_with_fuel(Seq::filter, 2);
}
pub proof fn lemma_filter_all<T>(s: Seq<T>, p: spec_fn(T) -> bool)
    ensures
        forall|i: int| 0 <= i < s.filter(p).len() ==> p(#[trigger] s.filter(p)[i]) && s.contains(s.filter(p)[i]),
        forall|i: int| 0 <= i < s.len() && p(s[i]) ==> s.filter(p).contains(#[trigger] s[i]),
        s.filter(p).len() <= s.len(),
    decreases s.len(),
{
    reveal_with_fuel(Seq::filter, 2);
    if s.len() > 0 {
        let d = s.drop_last();
        lemma_filter_all(d, p);
        let f = s.filter(p);
        let fd = d.filter(p);
        assert(f == (if p(s.last()) { fd.push(s.last()) } else { fd }));
        assert forall|i: int| 0 <= i < f.len() implies p(#[trigger] f[i]) && s.contains(f[i]) by {
            if i < fd.len() {
                assert(f[i] == fd[i]);
                assert(d.contains(fd[i]));
                let j = choose|j: int| 0 <= j < d.len() && d[j] == fd[i];
                assert(s[j] == d[j]);
            } else {
                assert(f[i] == s.last());
                assert(s[s.len() - 1] == s.last());
            }
        }
        assert forall|i: int| 0 <= i < s.len() && p(s[i]) implies f.contains(#[trigger] s[i]) by {
            if i < d.len() {
                assert(d[i] == s[i]);
                assert(fd.contains(d[i]));
                let k = choose|k: int| 0 <= k < fd.len() && fd[k] == d[i];
                assert(f[k] == fd[k]);
            } else {
                assert(f[f.len() - 1] == s[i]);
            }
        }
    }
}

// ---- evict_expired_services ----
// `map.retain(|_, records| !records.is_empty())`
#[verifier::external_body]
pub fn vx_map_drop_empty<T>(m: &mut HashMap<String, Vec<T>>)
    ensures
        forall|k: String| #[trigger] final(m)@.contains_key(k) <==> old(m)@.contains_key(k) && old(m)@[k]@.len() > 0,
        forall|k: String| #[trigger] final(m)@.contains_key(k) ==> final(m)@[k] == old(m)@[k],
{ unimplemented!() }

pub open spec fn alias_of(r: DnsRecordIntf) -> Option<Seq<char>> { payload_alias(r.record.payload()) }
pub open spec fn expired_rec(r: DnsRecordIntf, now: u64) -> bool { now >= r.record.rec().expires }
// every SRV record held for the instance has run out
pub open spec fn srv_gone(s0: Map<String, Vec<DnsRecordIntf>>, inst: Seq<char>, now: u64) -> bool { m_has(s0, inst) && s0[key_string(inst)]@.filter(live_at(now)).len() == 0 }
pub type PtrEnts = Seq<(String, Vec<DnsRecordIntf>)>;
// position (e, i) of the PTR map has been handled: entries before ne completely, of entry ne the first ni records
pub open spec fn handled(e: int, i: int, ne: int, ni: int) -> bool { e < ne || (e == ne && i < ni) }
// a reason to report instance `inst` under the type of entry e: a PTR record of that type that points to it and has expired
// (PTR pass, ni_ptr) or whose instance has no live SRV record left (SRV pass, ni_srv)
pub open spec fn reason(ents: PtrEnts, s0: Map<String, Vec<DnsRecordIntf>>, e: int, inst: Seq<char>, ne: int, ni_srv: int, ni_ptr: int, now: u64) -> bool {
    exists|i: int| 0 <= i < ents[e].1@.len() && alias_of(#[trigger] ents[e].1@[i]) == Some(inst)
        && ((handled(e, i, ne, ni_srv) && srv_gone(s0, inst, now)) || (handled(e, i, ne, ni_ptr) && expired_rec(ents[e].1@[i], now)))
}
pub open spec fn only_true(r: Map<String, HashSet<String>>, ents: PtrEnts, s0: Map<String, Vec<DnsRecordIntf>>, ne: int, ni_srv: int, ni_ptr: int, now: u64) -> bool {
    forall|ty: String, x: String| #![trigger r[ty]@.contains(x)] r.contains_key(ty) && r[ty]@.contains(x) ==>
        exists|e: int| 0 <= e < ents.len() && (#[trigger] ents[e]).0 == ty && reason(ents, s0, e, x@, ne, ni_srv, ni_ptr, now)
}
pub open spec fn all_reported(r: Map<String, HashSet<String>>, ents: PtrEnts, s0: Map<String, Vec<DnsRecordIntf>>, ne: int, ni_srv: int, ni_ptr: int, now: u64) -> bool {
    forall|e: int, i: int| 0 <= e < ents.len() && 0 <= i < ents[e].1@.len() && alias_of(#[trigger] ents[e].1@[i]) is Some
        && ((handled(e, i, ne, ni_srv) && srv_gone(s0, alias_of(ents[e].1@[i])->Some_0, now)) || (handled(e, i, ne, ni_ptr) && expired_rec(ents[e].1@[i], now)))
        ==> r.contains_key(ents[e].0) && r[ents[e].0]@.contains(key_string(alias_of(ents[e].1@[i])->Some_0))
}
// a record map in which some lists have been replaced by their unexpired part
pub open spec fn partly_evicted(m: Map<String, Vec<DnsRecordIntf>>, m0: Map<String, Vec<DnsRecordIntf>>, now: u64) -> bool {
    m.dom() == m0.dom() && forall|k: String| #[trigger] m.contains_key(k) ==> m[k]@ == m0[k]@ || m[k]@ == m0[k]@.filter(live_at(now))
}
// ... among them the lists of every instance a handled PTR record points to
pub open spec fn evicted_for_handled(m: Map<String, Vec<DnsRecordIntf>>, m0: Map<String, Vec<DnsRecordIntf>>, ents: PtrEnts, ne: int, ni: int, now: u64) -> bool {
    forall|e: int, i: int| 0 <= e < ents.len() && 0 <= i < ents[e].1@.len() && handled(e, i, ne, ni) && alias_of(#[trigger] ents[e].1@[i]) is Some && m_has(m0, alias_of(ents[e].1@[i])->Some_0)
        ==> m[key_string(alias_of(ents[e].1@[i])->Some_0)]@ == m0[key_string(alias_of(ents[e].1@[i])->Some_0)]@.filter(live_at(now))
}
pub proof fn lemma_filter_idem<T>(s: Seq<T>, p: spec_fn(T) -> bool)
    ensures s.filter(p).filter(p) == s.filter(p),
    decreases s.len(),
{
    reveal_with_fuel(Seq::filter, 2);
    if s.len() > 0 {
        let d = s.drop_last();
        lemma_filter_idem(d, p);
        let fd = d.filter(p);
        if p(s.last()) {
            let f = fd.push(s.last());
            assert(s.filter(p) == f);
            assert(f.drop_last() == fd);
            assert(f.last() == s.last());
        }
    }
}
// what `entry(k).or_insert_with(HashSet::new).insert(x)` does to the pairs (type, instance) listed by the map
pub proof fn lemma_set_insert<T>(pre: Map<String, HashSet<T>>, post: Map<String, HashSet<T>>, k: String, x: T)
    requires
        post.dom() == pre.dom().insert(k),
        forall|j: String| j != k && pre.contains_key(j) ==> #[trigger] post[j] == pre[j],
        post[k]@ == (if pre.contains_key(k) { pre[k]@ } else { Set::<T>::empty() }).insert(x),
    ensures
        forall|ty: String, y: T| #![trigger pre[ty]@.contains(y)] pre.contains_key(ty) && pre[ty]@.contains(y) ==> post.contains_key(ty) && post[ty]@.contains(y),
        forall|ty: String, y: T| #![trigger post[ty]@.contains(y)] post.contains_key(ty) && post[ty]@.contains(y) ==> (ty == k && y == x) || (pre.contains_key(ty) && pre[ty]@.contains(y)),
        post.contains_key(k) && post[k]@.contains(x),
{
    assert forall|ty: String, y: T| #![trigger pre[ty]@.contains(y)] pre.contains_key(ty) && pre[ty]@.contains(y) implies post.contains_key(ty) && post[ty]@.contains(y) by {
        if ty != k { assert(post[ty] == pre[ty]); }
    }
    assert forall|ty: String, y: T| #![trigger post[ty]@.contains(y)] post.contains_key(ty) && post[ty]@.contains(y) implies (ty == k && y == x) || (pre.contains_key(ty) && pre[ty]@.contains(y)) by {
        if ty != k { assert(pre.contains_key(ty)); assert(post[ty] == pre[ty]); }
    }
}

pub proof fn lemma_only_true_mono(r: Map<String, HashSet<String>>, ents: PtrEnts, s0: Map<String, Vec<DnsRecordIntf>>, ne: int, a: int, b: int, ne2: int, a2: int, b2: int, now: u64)
    requires only_true(r, ents, s0, ne, a, b, now), ne < ne2 || (ne == ne2 && a <= a2 && b <= b2),
    ensures only_true(r, ents, s0, ne2, a2, b2, now),
{
    assert forall|ty: String, x: String| #![trigger r[ty]@.contains(x)] r.contains_key(ty) && r[ty]@.contains(x) implies
        exists|e: int| 0 <= e < ents.len() && (#[trigger] ents[e]).0 == ty && reason(ents, s0, e, x@, ne2, a2, b2, now) by {
        let e = choose|e: int| 0 <= e < ents.len() && (#[trigger] ents[e]).0 == ty && reason(ents, s0, e, x@, ne, a, b, now);
        let i = choose|i: int| 0 <= i < ents[e].1@.len() && alias_of(#[trigger] ents[e].1@[i]) == Some(x@)
            && ((handled(e, i, ne, a) && srv_gone(s0, x@, now)) || (handled(e, i, ne, b) && expired_rec(ents[e].1@[i], now)));
        assert(alias_of(ents[e].1@[i]) == Some(x@) && ((handled(e, i, ne2, a2) && srv_gone(s0, x@, now)) || (handled(e, i, ne2, b2) && expired_rec(ents[e].1@[i], now))));
        assert(reason(ents, s0, e, x@, ne2, a2, b2, now));
    }
}
pub proof fn lemma_only_true_insert(pre: Map<String, HashSet<String>>, post: Map<String, HashSet<String>>, ents: PtrEnts, s0: Map<String, Vec<DnsRecordIntf>>, ne: int, a: int, b: int, k: String, x: String, now: u64)
    requires
        only_true(pre, ents, s0, ne, a, b, now), 0 <= ne < ents.len(), ents[ne].0 == k, reason(ents, s0, ne, x@, ne, a, b, now),
        forall|ty: String, y: String| #![trigger post[ty]@.contains(y)] post.contains_key(ty) && post[ty]@.contains(y) ==> (ty == k && y == x) || (pre.contains_key(ty) && pre[ty]@.contains(y)),
    ensures only_true(post, ents, s0, ne, a, b, now),
{
    assert forall|ty: String, y: String| #![trigger post[ty]@.contains(y)] post.contains_key(ty) && post[ty]@.contains(y) implies
        exists|e: int| 0 <= e < ents.len() && (#[trigger] ents[e]).0 == ty && reason(ents, s0, e, y@, ne, a, b, now) by {
        if ty == k && y == x { assert(ents[ne].0 == ty); } else { assert(pre.contains_key(ty) && pre[ty]@.contains(y)); }
    }
}
pub proof fn lemma_all_reported_step(pre: Map<String, HashSet<String>>, post: Map<String, HashSet<String>>, ents: PtrEnts, s0: Map<String, Vec<DnsRecordIntf>>, ne: int, a: int, b: int, a2: int, b2: int, now: u64)
    requires
        all_reported(pre, ents, s0, ne, a, b, now), 0 <= ne < ents.len(),
        (a2 == a + 1 && b2 == b && 0 <= a < ents[ne].1@.len()) || (a2 == a && b2 == b + 1 && 0 <= b < ents[ne].1@.len()),
        forall|ty: String, y: String| #![trigger pre[ty]@.contains(y)] pre.contains_key(ty) && pre[ty]@.contains(y) ==> post.contains_key(ty) && post[ty]@.contains(y),
        a2 == a + 1 && alias_of(ents[ne].1@[a]) is Some && srv_gone(s0, alias_of(ents[ne].1@[a])->Some_0, now) ==> post.contains_key(ents[ne].0) && post[ents[ne].0]@.contains(key_string(alias_of(ents[ne].1@[a])->Some_0)),
        b2 == b + 1 && alias_of(ents[ne].1@[b]) is Some && expired_rec(ents[ne].1@[b], now) ==> post.contains_key(ents[ne].0) && post[ents[ne].0]@.contains(key_string(alias_of(ents[ne].1@[b])->Some_0)),
    ensures all_reported(post, ents, s0, ne, a2, b2, now),
{
    assert forall|e: int, i: int| 0 <= e < ents.len() && 0 <= i < ents[e].1@.len() && alias_of(#[trigger] ents[e].1@[i]) is Some
        && ((handled(e, i, ne, a2) && srv_gone(s0, alias_of(ents[e].1@[i])->Some_0, now)) || (handled(e, i, ne, b2) && expired_rec(ents[e].1@[i], now)))
        implies post.contains_key(ents[e].0) && post[ents[e].0]@.contains(key_string(alias_of(ents[e].1@[i])->Some_0)) by {
        let inst = alias_of(ents[e].1@[i])->Some_0;
        if (handled(e, i, ne, a) && srv_gone(s0, inst, now)) || (handled(e, i, ne, b) && expired_rec(ents[e].1@[i], now)) {
            assert(pre.contains_key(ents[e].0) && pre[ents[e].0]@.contains(key_string(inst)));
        }
    }
}
pub proof fn lemma_next_entry(r: Map<String, HashSet<String>>, ents: PtrEnts, s0: Map<String, Vec<DnsRecordIntf>>, ne: int, now: u64)
    requires 0 <= ne < ents.len(), only_true(r, ents, s0, ne, ents[ne].1@.len() as int, ents[ne].1@.len() as int, now), all_reported(r, ents, s0, ne, ents[ne].1@.len() as int, ents[ne].1@.len() as int, now),
    ensures only_true(r, ents, s0, ne + 1, 0, 0, now), all_reported(r, ents, s0, ne + 1, 0, 0, now),
{
    lemma_only_true_mono(r, ents, s0, ne, ents[ne].1@.len() as int, ents[ne].1@.len() as int, ne + 1, 0, 0, now);
    assert forall|e: int, i: int| 0 <= e < ents.len() && 0 <= i < ents[e].1@.len() && alias_of(#[trigger] ents[e].1@[i]) is Some
        && ((handled(e, i, ne + 1, 0) && srv_gone(s0, alias_of(ents[e].1@[i])->Some_0, now)) || (handled(e, i, ne + 1, 0) && expired_rec(ents[e].1@[i], now)))
        implies r.contains_key(ents[e].0) && r[ents[e].0]@.contains(key_string(alias_of(ents[e].1@[i])->Some_0)) by {
        assert(handled(e, i, ne, ents[ne].1@.len() as int));
    }
}

#[verifier::external_body]
pub fn vx_remove_str<V>(m: &mut HashMap<String, V>, k: &str)
    ensures final(m)@ == old(m)@.remove(key_string(k@)),
{ unimplemented!() }

// ---- get_known_answers ----
// DnsCache read access (one-line getters over its maps; get_addr lower-cases the host name)
impl DnsCache {
    #[verifier::external_body]
    pub fn get_ptr(&self, ty_domain: &str) -> (r: Option<&Vec<DnsRecordIntf>>)
        ensures r is Some <==> m_has(self.ptr@, ty_domain@), r is Some ==> *r->Some_0 == self.ptr@[key_string(ty_domain@)],
    { unimplemented!() }
    #[verifier::external_body]
    pub fn get_srv(&self, fullname: &str) -> (r: Option<&Vec<DnsRecordIntf>>)
        ensures r is Some <==> m_has(self.srv@, fullname@), r is Some ==> *r->Some_0 == self.srv@[key_string(fullname@)],
    { unimplemented!() }
    #[verifier::external_body]
    pub fn get_txt(&self, fullname: &str) -> (r: Option<&Vec<DnsRecordIntf>>)
        ensures r is Some <==> m_has(self.txt@, fullname@), r is Some ==> *r->Some_0 == self.txt@[key_string(fullname@)],
    { unimplemented!() }
    #[verifier::external_body]
    pub fn get_addr(&self, hostname: &str) -> (r: Option<&Vec<DnsRecordIntf>>)
        ensures r is Some <==> m_has(self.addr@, lower(hostname@)), r is Some ==> *r->Some_0 == self.addr@[key_string(lower(hostname@))],
    { unimplemented!() }
}
// `vec.iter().filter(|r| P(r)).collect::<Vec<&T>>()`: references to the elements satisfying P, in order; `p` is the ghost reading
// of the closure's contract
#[verifier::external_body]
pub fn vx_filter_refs<'a, T, F: Fn(&T) -> bool>(v: &'a Vec<T>, f: F, p: Ghost<spec_fn(T) -> bool>) -> (r: Vec<&'a T>)
    requires forall|i: int| 0 <= i < v@.len() ==> f.requires((&#[trigger] v@[i],)), forall|x: &T, b: bool| #[trigger] f.ensures((x,), b) ==> b == p@(*x),
    ensures r@.len() == v@.filter(p@).len(), forall|i: int| 0 <= i < r@.len() ==> *(#[trigger] r@[i]) == v@.filter(p@)[i],
{ unimplemented!() }
// the statement (C10): a shared record (no cache-flush bit) with more than half of its lifetime left
pub open spec fn known_answer_ok(now: u64) -> spec_fn(DnsRecordIntf) -> bool {
    |r: DnsRecordIntf| !r.record.rec().entry.cache_flush && !(now as int > exp_at(r.record.rec().created, r.record.rec().ttl, 50))
}
pub open spec fn held_for(c: DnsCache, name: Seq<char>, qtype: RRType) -> Seq<DnsRecordIntf> {
    if qtype == RRType::PTR { list_in(c.ptr@, name) } else if qtype == RRType::SRV { list_in(c.srv@, name) } else if qtype == RRType::TXT { list_in(c.txt@, name) }
    else if qtype == RRType::A || qtype == RRType::AAAA { list_in(c.addr@, lower(name)) } else { Seq::empty() }
}

// ---- service_verify_queries ----
impl DnsRecordDyn {
    // the SRV view of a boxed record: its target host
    #[verifier::external_body]
    pub fn as_srv_host(&self) -> (r: Option<&DnsSrv>)
        ensures r is Some <==> payload_srv_host(self.payload()) is Some, r is Some ==> r->Some_0.host@ == payload_srv_host(self.payload())->Some_0,
    { unimplemented!() }
}
pub uninterp spec fn payload_srv_host(p: int) -> Option<Seq<char>>;

// a record after `set_expire_sooner(t)` (unit lifetime: expires = min(expires, t), nothing else touched) when a deadline is given
pub open spec fn sooner(a: DnsRecordIntf, b: DnsRecordIntf, t: Option<u64>) -> bool {
    b.src_intf == a.src_intf && b.record.payload() == a.record.payload()
    && b.record.rec() == (DnsRecord { expires: (if t is Some && t->Some_0 < a.record.rec().expires { t->Some_0 } else { a.record.rec().expires }), ..a.record.rec() })
}
// every list of the map as it was, except that records may have been given the deadline
pub open spec fn some_sooner(m: Map<String, Vec<DnsRecordIntf>>, m0: Map<String, Vec<DnsRecordIntf>>, t: Option<u64>) -> bool {
    m.dom() == m0.dom() && forall|k: String| #[trigger] m.contains_key(k) ==> m[k]@.len() == m0[k]@.len() && forall|i: int| 0 <= i < m0[k]@.len() ==> (#[trigger] m[k]@[i] == m0[k]@[i] || sooner(m0[k]@[i], m[k]@[i], t))
}
// the hosts targeted by the first n SRV records have all their address records on the deadline (host name looked up as spelled)
pub open spec fn hosts_sooner(m: Map<String, Vec<DnsRecordIntf>>, m0: Map<String, Vec<DnsRecordIntf>>, l: Seq<DnsRecordIntf>, n: int, t: Option<u64>) -> bool {
    forall|j: int, i: int| 0 <= j < n && payload_srv_host((#[trigger] l[j]).record.payload()) is Some && m_has(m0, payload_srv_host(l[j].record.payload())->Some_0)
        && 0 <= i < m0[key_string(payload_srv_host(l[j].record.payload())->Some_0)]@.len()
        ==> sooner(#[trigger] m0[key_string(payload_srv_host(l[j].record.payload())->Some_0)]@[i], m[key_string(payload_srv_host(l[j].record.payload())->Some_0)]@[i], t)
}
// the questions: SRV for the instance, then A and AAAA for the target of each of its SRV records
pub open spec fn verify_questions(inst: Seq<char>, l: Seq<DnsRecordIntf>, n: int) -> Seq<(Seq<char>, RRType)>
    decreases n,
{
    if n <= 0 { seq![(inst, RRType::SRV)] }
    else if payload_srv_host(l[n - 1].record.payload()) is Some { verify_questions(inst, l, n - 1).push((payload_srv_host(l[n - 1].record.payload())->Some_0, RRType::A)).push((payload_srv_host(l[n - 1].record.payload())->Some_0, RRType::AAAA)) }
    else { verify_questions(inst, l, n - 1) }
}
pub open spec fn q_view(v: Seq<(String, RRType)>) -> Seq<(Seq<char>, RRType)> { v.map_values(|q: (String, RRType)| (q.0@, q.1)) }
