// ---- HashMap / HashSet stand-ins with the std names (trusted, textbook semantics over ghost Map / Set) ----
// std::collections::HashMap, textbook semantics over a ghost Map (std's own spec in vstd lacks
// remove_entry/iter-as-sequence and needs key-model axioms for String).
#[verifier::external_body]
#[verifier::reject_recursive_types(K)]
#[verifier::reject_recursive_types(V)]
pub struct HashMap<K, V> { x: core::marker::PhantomData<(K, V)> }
impl<K, V> HashMap<K, V> {
    pub uninterp spec fn view(&self) -> Map<K, V>;
    // the entries in iteration order (some order; every key exactly once)
    pub uninterp spec fn entries(&self) -> Seq<(K, V)>;
    #[verifier::external_body]
    pub fn new() -> (r: Self)
        ensures r@ == Map::<K, V>::empty(),
    { unimplemented!() }
    #[verifier::external_body]
    pub fn get(&self, k: &K) -> (r: Option<&V>)
        ensures
            self@.contains_key(*k) ==> r == Some(&self@[*k]),
            !self@.contains_key(*k) ==> r is None,
    { unimplemented!() }
    // the returned borrow is the entry's value; when it ends, the map holds what was written through it
    #[verifier::external_body]
    pub fn get_mut(&mut self, k: &K) -> (r: Option<&mut V>)
        ensures
            old(self)@.contains_key(*k) ==> r is Some && *r->Some_0 == old(self)@[*k] && final(self)@ == old(self)@.insert(*k, *final(r->Some_0)),
            !old(self)@.contains_key(*k) ==> r is None && *final(self) == *old(self),
    { unimplemented!() }
    #[verifier::external_body]
    pub fn contains_key(&self, k: &K) -> (r: bool)
        ensures r == self@.contains_key(*k),
    { unimplemented!() }
    #[verifier::external_body]
    pub fn insert(&mut self, k: K, v: V) -> (r: Option<V>)
        ensures final(self)@ == old(self)@.insert(k, v),
    { unimplemented!() }
    #[verifier::external_body]
    pub fn remove(&mut self, k: &K) -> (r: Option<V>)
        ensures
            final(self)@ == old(self)@.remove(*k),
            old(self)@.contains_key(*k) ==> r == Some(old(self)@[*k]),
            !old(self)@.contains_key(*k) ==> r is None && *final(self) == *old(self),
    { unimplemented!() }
    #[verifier::external_body]
    pub fn remove_entry(&mut self, k: &K) -> (r: Option<(K, V)>)
        ensures
            final(self)@ == old(self)@.remove(*k),
            old(self)@.contains_key(*k) ==> r == Some((*k, old(self)@[*k])),
            !old(self)@.contains_key(*k) ==> r is None && *final(self) == *old(self),
    { unimplemented!() }
    // iteration order is some sequence of the entries; `for (k, v) in map.iter()` then ranges over `&Vec<(K, V)>`,
    // which binds k: &K, v: &V exactly as std's iterator item (&K, &V) does
    #[verifier::external_body]
    pub fn iter(&self) -> (r: &Vec<(K, V)>)
        ensures
            r@ == self.entries(),
            forall|i: int| 0 <= i < self.entries().len() ==> self@.contains_key((#[trigger] self.entries()[i]).0) && self@[self.entries()[i].0] == self.entries()[i].1,
    { unimplemented!() }
    #[verifier::external_body]
    pub fn is_empty(&self) -> (r: bool)
        ensures r == (self@.len() == 0),
    { unimplemented!() }
    #[verifier::external_body]
    pub fn clear(&mut self)
        ensures final(self)@ == Map::<K, V>::empty(),
    { unimplemented!() }
    // `for (k, v) in map.iter_mut()`: a slice iterator over the entries in iteration order; each entry's final value is what
    // was written through its item borrow (keys are only read by the code)
    #[verifier::external_body]
    pub fn iter_mut(&mut self) -> (r: core::slice::IterMut<'_, (K, V)>)
        ensures
            vstd::std_specs::iter::IteratorSpec::obeys_prophetic_iter_laws(&r), vstd::std_specs::iter::IteratorSpec::decrease(&r) is Some,
            vstd::std_specs::iter::IteratorSpec::remaining(&r).len() == old(self).entries().len(),
            forall|i: int| 0 <= i < old(self).entries().len() ==> *(#[trigger] vstd::std_specs::iter::IteratorSpec::remaining(&r)[i]) == old(self).entries()[i],
            final(self).entries().len() == old(self).entries().len(),
            forall|i: int| 0 <= i < old(self).entries().len() ==> #[trigger] final(self).entries()[i] == *final(vstd::std_specs::iter::IteratorSpec::remaining(&r)[i]),
    { unimplemented!() }
    #[verifier::external_body]
    pub fn keys(&self) -> (r: &Vec<K>)
        ensures r@.len() == self.entries().len(), forall|i: int| 0 <= i < r@.len() ==> #[trigger] r@[i] == self.entries()[i].0,
    { unimplemented!() }
    // `for v in map.values()`: the values in iteration order
    #[verifier::external_body]
    pub fn values(&self) -> (r: &Vec<V>)
        ensures r@.len() == self.entries().len(), forall|i: int| 0 <= i < r@.len() ==> #[trigger] r@[i] == self.entries()[i].1,
    { unimplemented!() }
}
// `map.keys().cloned().collect::<Vec<K>>()`: every key exactly once, in iteration order; shim with that body
#[verifier::external_body]
pub fn vx_keys_vec<K: Clone, V>(m: &HashMap<K, V>) -> (r: Vec<K>)
    ensures forall|k: K| m@.contains_key(k) <==> r@.contains(k),
{ unimplemented!() }

#[verifier::external_body]
#[verifier::reject_recursive_types(K)]
pub struct HashSet<K> { x: core::marker::PhantomData<K> }
impl<K> HashSet<K> {
    pub uninterp spec fn view(&self) -> Set<K>;
    #[verifier::external_body]
    pub fn new() -> (r: Self)
        ensures r@ == Set::<K>::empty(),
    { unimplemented!() }
    // `HashSet::from([x])`
    #[verifier::external_body]
    pub fn from(a: [K; 1]) -> (r: Self) { unimplemented!() }
    #[verifier::external_body]
    pub fn is_empty(&self) -> (r: bool)
        ensures r == (self@ =~= Set::<K>::empty()),
    { unimplemented!() }
    #[verifier::external_body]
    pub fn contains(&self, k: &K) -> (r: bool)
        ensures r == self@.contains(*k),
    { unimplemented!() }
    #[verifier::external_body]
    pub fn insert(&mut self, k: K) -> (r: bool)
        ensures final(self)@ == old(self)@.insert(k), r == !old(self)@.contains(k),
    { unimplemented!() }
    #[verifier::external_body]
    pub fn remove(&mut self, k: &K) -> (r: bool)
        ensures final(self)@ == old(self)@.remove(*k), r == old(self)@.contains(*k),
    { unimplemented!() }
    // `set.drain()` consumed by a `for` loop or by `extend`: every element once, in some order; the set is left empty
    #[verifier::external_body]
    pub fn drain(&mut self) -> (r: Vec<K>)
        ensures
            final(self)@ =~= Set::<K>::empty(),
            forall|x: K| #[trigger] old(self)@.contains(x) ==> r@.contains(x),
            forall|j: int| 0 <= j < r@.len() ==> old(self)@.contains(#[trigger] r@[j]),
    { unimplemented!() }
    #[verifier::external_body]
    pub fn extend(&mut self, v: Vec<K>)
        ensures
            forall|x: K| #[trigger] old(self)@.contains(x) ==> final(self)@.contains(x),
            forall|j: int| 0 <= j < v@.len() ==> final(self)@.contains(#[trigger] v@[j]),
            forall|x: K| #[trigger] final(self)@.contains(x) ==> old(self)@.contains(x) || v@.contains(x),
    { unimplemented!() }
}

