// ---- common environment (trusted): logging macros as in src/lib.rs with feature "logging" off ----
macro_rules! trace { ($($tt:tt)*) => {{}} }
macro_rules! debug { ($($tt:tt)*) => {{}} }
macro_rules! error { ($($tt:tt)*) => {{}} }
// R5: `format!` yields an arbitrary String; its argument expressions are still evaluated (so a
// slice or subtraction inside an error message is still checked), only the text is dropped.
#[verifier::external_body]
pub fn vx_string_any() -> (r: String) { unimplemented!() }
macro_rules! format {
    ($fmt:literal $(, $arg:expr)* $(,)?) => {{ $( let _ = &$arg; )* vx_string_any() }};
}
macro_rules! e_fmt { ($($arg:tt)+) => { Error::Msg(format!($($arg)+)) }; }

pub enum Error { Again, DaemonShutdown, Msg(String), ParseIpAddr(String) }
pub type Result<T> = core::result::Result<T, Error>;

// the clock: constant during one handler call, below 2^62 ms (year 146 million)
pub uninterp spec fn clock() -> u64;
pub open spec fn time_ok(t: u64) -> bool { t < 0x4000_0000_0000_0000 }
#[verifier::external_body]
pub fn current_time_millis() -> (r: u64)
    ensures r == clock(), time_ok(r),
{ unimplemented!() }
