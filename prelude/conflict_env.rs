// ---- environment of unit `conflict` (trusted) ----
// std::cmp::Reverse / std::collections::BinaryHeap<Reverse<u64>> as a multiset (see daemon_env.rs)
pub struct Reverse<T>(pub T);
#[verifier::external_body]
#[verifier::reject_recursive_types(T)]
pub struct BinaryHeap<T> { x: core::marker::PhantomData<T> }
impl BinaryHeap<Reverse<u64>> {
    pub uninterp spec fn view(&self) -> Multiset<u64>;
    #[verifier::external_body]
    pub fn push(&mut self, v: Reverse<u64>)
        ensures final(self)@ == old(self)@.insert(v.0),
    { unimplemented!() }
}
pub struct InterfaceId { pub name: String, pub index: u32 }
#[verifier::external_body] pub struct IfAddr { x: u8 }
// Stand-in for `dyn DnsRecordExt` behind a Box (see records_env.rs): `rec()` is the DnsRecord inside, `payload()` the rest (RDATA
// and, for addresses, the interface)
#[verifier::external_body]
pub struct DnsRecordDyn { x: core::marker::PhantomData<u8> }
pub type DnsRecordBox = Box<DnsRecordDyn>;
pub uninterp spec fn payload_intf(p: int) -> Option<u32>;
pub uninterp spec fn rdata_same(p1: int, p2: int) -> bool;
impl DnsRecordDyn {
    pub uninterp spec fn rec(&self) -> DnsRecord;
    pub uninterp spec fn payload(&self) -> int;
    #[verifier::external_body]
    pub fn get_name(&self) -> (r: &str) ensures r@ == rec_name(self.rec()) { unimplemented!() }
    #[verifier::external_body]
    pub fn get_type(&self) -> (r: RRType) ensures r == self.rec().entry.ty { unimplemented!() }
    #[verifier::external_body]
    pub fn get_class(&self) -> (r: u16) ensures r == self.rec().entry.class { unimplemented!() }
    #[verifier::external_body]
    pub fn get_record(&self) -> (r: &DnsRecord) ensures *r == self.rec() { unimplemented!() }
    #[verifier::external_body]
    pub fn get_record_mut(&mut self) -> (r: &mut DnsRecord)
        ensures *r == old(self).rec(), final(self).rec() == *final(r), final(self).payload() == old(self).payload(),
    { unimplemented!() }
    // "same RDATA" (six impls behind dyn Any downcasts; assumed to depend on the RDATA only)
    #[verifier::external_body]
    pub fn rrdata_match(&self, other: &DnsRecordDyn) -> (r: bool) ensures r == rdata_same(self.payload(), other.payload()) { unimplemented!() }
    #[verifier::external_body]
    pub fn as_addr(&self) -> (r: Option<&DnsAddress>)
        ensures r is Some <==> payload_intf(self.payload()) is Some, r is Some ==> r->Some_0.interface_id.index == payload_intf(self.payload())->Some_0,
    { unimplemented!() }
}
pub open spec fn rec_name(r: DnsRecord) -> Seq<char> { if r.new_name is Some { r.new_name->Some_0@ } else { r.entry.name@ } }
pub assume_specification<T: ?Sized, A: core::alloc::Allocator> [<Box<T, A> as core::convert::AsRef<T>>::as_ref] (b: &Box<T, A>) -> (r: &T)
    ensures r == &**b;
// `record.clone()` on Box<dyn DnsRecordExt> (clone_box through the trait object): an equal record
#[verifier::external_body]
pub fn vx_clone_box(b: &DnsRecordBox) -> (r: DnsRecordBox)
    ensures r.rec() == b.rec(), r.payload() == b.payload(),
{ unimplemented!() }
#[verifier::external_body]
pub broadcast proof fn axiom_string_ext(a: String, b: String)
    ensures #![trigger a@, b@] a@ == b@ ==> a == b,
{}
pub uninterp spec fn key_string(s: Seq<char>) -> String;
#[verifier::external_body]
pub broadcast proof fn axiom_key_string(s: Seq<char>)
    ensures #[trigger] key_string(s)@ == s,
{}
#[verifier::external_body]
pub fn vx_get_mut_str<'a, V>(m: &'a mut HashMap<String, V>, k: &str) -> (r: Option<&'a mut V>)
    ensures
        old(m)@.contains_key(key_string(k@)) ==> r is Some && *r->Some_0 == old(m)@[key_string(k@)] && final(m)@ == old(m)@.insert(key_string(k@), *final(r->Some_0)),
        !old(m)@.contains_key(key_string(k@)) ==> r is None && *final(m) == *old(m),
{ unimplemented!() }
// the conflict-rename helpers (panic freedom proved in unit validate; what they compute is a function of the name)
pub uninterp spec fn name_changed(s: Seq<char>) -> Seq<char>;
pub uninterp spec fn hostname_changed(s: Seq<char>) -> Seq<char>;
#[verifier::external_body]
pub fn name_change(original: &str) -> (r: String) ensures r@ == name_changed(original@) { unimplemented!() }
#[verifier::external_body]
pub fn hostname_change(original: &str) -> (r: String) ensures r@ == hostname_changed(original@) { unimplemented!() }
// `fastrand::u64(0..250)`
#[verifier::external_body]
pub fn vx_rand_below_250() -> (r: u64) ensures r < 250 { unimplemented!() }
impl HashSet<String> {
    #[verifier::external_body]
    pub fn clone(&self) -> (r: Self) ensures r@ == self@ { unimplemented!() }
    #[verifier::external_body]
    pub fn extend_set(&mut self, other: HashSet<String>) ensures final(self)@ == old(self)@.union(other@) { unimplemented!() }
}
impl Probe {
    // sorted insertion (binary_search_by closure; assumed): the record joins the probe's records
    #[verifier::external_body]
    pub fn insert_record(&mut self, record: DnsRecordBox)
        ensures (exists|pos: int| 0 <= pos <= old(self).records@.len() && final(self).records@ == old(self).records@.insert(pos, record) && #[trigger] final(self).records@[pos] == record), final(self).waiting_services == old(self).waiting_services, final(self).start_time == old(self).start_time, final(self).next_send == old(self).next_send,
            forall|i: int| 0 <= i < final(self).records@.len() ==> (#[trigger] final(self).records@[i]) == record || old(self).records@.contains(final(self).records@[i]),
    { unimplemented!() }
    #[verifier::external_body]
    pub fn new(start_time: u64) -> (r: Self)
        ensures r.records@.len() == 0, r.waiting_services@ == Set::<String>::empty(), r.start_time == start_time, r.next_send == start_time,
    { unimplemented!() }
}
// `map.entry(k).or_insert_with(|| Probe::new(t))`
#[verifier::external_body]
pub fn vx_probe_or_new<'a>(m: &'a mut HashMap<String, Probe>, k: String, t: u64) -> (r: &'a mut Probe)
    ensures
        old(m)@.contains_key(k) ==> *r == old(m)@[k],
        !old(m)@.contains_key(k) ==> r.records@.len() == 0 && r.start_time == t && r.next_send == t && r.waiting_services@ == Set::<String>::empty(),
        final(m)@ == old(m)@.insert(k, *final(r)),
{ unimplemented!() }
// `probe.records.iter().any(|r| P(r))`
#[verifier::external_body]
pub fn vx_any_box<F: Fn(&DnsRecordBox) -> bool>(v: &Vec<DnsRecordBox>, f: F, p: Ghost<spec_fn(DnsRecordBox) -> bool>) -> (r: bool)
    requires forall|x: &DnsRecordBox| #[trigger] f.requires((x,)), forall|x: &DnsRecordBox, b: bool| #[trigger] f.ensures((x,), b) ==> b == p@(*x),
    ensures r == exists|i: int| 0 <= i < v@.len() && p@(#[trigger] v@[i]),
{ unimplemented!() }
#[verifier::external_body]
pub fn vx_vec_take<T>(v: &mut Vec<T>) -> (r: Vec<T>)
    ensures r@ == old(v)@, final(v)@ == Seq::<T>::empty(),
{ unimplemented!() }
// the daemon, reduced to the fields conflict_handler and handle_read touch (a change that touches another field no longer compiles here)
#[verifier::external_body] pub struct ZeroconfRest { x: u8 }
pub struct MyIntf { pub name: String, pub index: u32 }
pub struct Zeroconf {
    pub my_intfs: HashMap<u32, MyIntf>,
    pub dns_registry_map: HashMap<u32, DnsRegistry>,
    pub timers: BinaryHeap<Reverse<u64>>,
    pub ipv4_sock: Option<MyUdpSocket>,
    pub ipv6_sock: Option<MyUdpSocket>,
    pub rest: ZeroconfRest,
}
// ---- the statement (C08) ----
// a probing record conflicts with an answer of the same name: same type and class, different RDATA
pub open spec fn conflicts(r: DnsRecordBox, answer: &DnsRecordDyn) -> bool {
    r.rec().entry.ty == answer.rec().entry.ty && r.rec().entry.class == answer.rec().entry.class && !rdata_same(r.payload(), answer.payload())
}
// the loser's new name: 'h' -> 'h-2' for address records (host names), 'x' -> 'x (2)' for everything else
pub open spec fn renamed_for(ty: RRType, name: Seq<char>) -> Seq<char> { if ty == RRType::A || ty == RRType::AAAA { hostname_changed(name) } else { name_changed(name) } }
pub open spec fn renamed_copy(orig: DnsRecordBox, new: DnsRecordBox, name: Seq<char>) -> bool {
    new.payload() == orig.payload() && new.rec().entry == orig.rec().entry && rec_name(new.rec()) == renamed_for(orig.rec().entry.ty, name)
}
pub open spec fn renamed_from(x: DnsRecordBox, pl: Seq<DnsRecordBox>, n: int, answer: &DnsRecordDyn, name: Seq<char>) -> bool {
    exists|i: int| 0 <= i < n && conflicts(#[trigger] pl[i], answer) && renamed_copy(pl[i], x, name)
}
pub open spec fn all_renamed(news: Seq<DnsRecordBox>, pl: Seq<DnsRecordBox>, n: int, answer: &DnsRecordDyn, name: Seq<char>) -> bool {
    forall|k: int| 0 <= k < news.len() ==> renamed_from(#[trigger] news[k], pl, n, answer, name)
}
pub open spec fn keeps(answer: &DnsRecordDyn) -> spec_fn(DnsRecordBox) -> bool { |r: DnsRecordBox| !conflicts(r, answer) }

// `String == String` of the standard library: equality of contents (assumed)
pub broadcast axiom fn ax_string_eq(a: String, b: String)
    ensures #![trigger a.eq_spec(&b)] <String as vstd::std_specs::cmp::PartialEqSpec<String>>::obeys_eq_spec(), a.eq_spec(&b) == (a@ == b@);
pub proof fn lemma_filter_step<T>(s: Seq<T>, i: int, p: spec_fn(T) -> bool)
    requires 0 <= i < s.len(),
    ensures s.take(i + 1).filter(p) == (if p(s[i]) { s.take(i).filter(p).push(s[i]) } else { s.take(i).filter(p) }),
{
    let t = s.take(i + 1);
    assert(t.drop_last() == s.take(i));
    assert(t.last() == s[i]);
    reveal_with_fuel(Seq::filter, 2);
}

// ---- is_probing_done ----
pub uninterp spec fn same_rec(p1: int, e1: DnsEntry, p2: int, e2: DnsEntry) -> bool;
// a record matches its own copy (every impl compares the record's own fields; see matches_spec in unit records)
#[verifier::external_body]
pub broadcast proof fn axiom_same_rec_refl(p: int, e: DnsEntry)
    ensures #[trigger] same_rec(p, e, p, e),
{}
// the part of the record trait is_probing_done uses (matches: proved in unit records to decide "same record")
pub trait DnsRecordExt {
    spec fn rec(&self) -> DnsRecord;
    spec fn payload(&self) -> int;
    fn get_name(&self) -> (r: &str)
        ensures r@ == rec_name(self.rec());
    fn matches(&self, other: &DnsRecordDyn) -> (r: bool)
        ensures r == same_rec(self.payload(), self.rec().entry, other.payload(), other.rec().entry);
    fn clone_box(&self) -> (r: DnsRecordBox)
        ensures r.rec() == self.rec(), r.payload() == self.payload();
}
#[verifier::external_body]
pub fn vx_get_str<'a, V>(m: &'a HashMap<String, V>, k: &str) -> (r: Option<&'a V>)
    ensures r is Some <==> m@.contains_key(key_string(k@)), r is Some ==> *r->Some_0 == m@[key_string(k@)],
{ unimplemented!() }
pub open spec fn matches_one<T: DnsRecordExt>(answer: &T, l: Seq<DnsRecordBox>, n: int) -> bool {
    exists|i: int| 0 <= i < n && same_rec(answer.payload(), answer.rec().entry, (#[trigger] l[i]).payload(), l[i].rec().entry)
}
pub open spec fn active_match<T: DnsRecordExt>(answer: &T, active: Map<String, Vec<DnsRecordBox>>) -> bool {
    active.contains_key(key_string(rec_name(answer.rec()))) && matches_one(answer, active[key_string(rec_name(answer.rec()))]@, active[key_string(rec_name(answer.rec()))]@.len() as int)
}
// ---- handle_read ----
// the socket layer: `recv` fills the front of the buffer with one datagram and says how long it is; what lies behind those
// bytes in the buffer is not part of any datagram
pub uninterp spec fn is_datagram(d: Seq<u8>) -> bool;
#[verifier::external_body] pub struct PktInfoUdpSocket { x: u8 }
#[verifier::external_body] pub struct IoError { x: u8 }
#[verifier::external_body] pub struct SocketAddr { x: u8 }
pub struct PktInfo { pub if_index: u64, pub addr_src: SocketAddr }
impl PktInfoUdpSocket {
    #[verifier::external_body]
    pub fn recv(&mut self, buf: &mut Vec<u8>) -> (r: core::result::Result<(usize, PktInfo), IoError>)
        ensures final(buf)@.len() == old(buf)@.len(), r is Ok ==> r->Ok_0.0 <= old(buf)@.len() && is_datagram(final(buf)@.take(r->Ok_0.0 as int)),
    { unimplemented!() }
}
#[verifier::external_body]
pub fn vx_would_block(e: &IoError) -> (r: bool) { unimplemented!() }
pub struct MyUdpSocket { pub pktinfo: PktInfoUdpSocket }
#[verifier::external_body]
pub fn vx_zeroed(n: usize) -> (r: Vec<u8>) ensures r@.len() == n { unimplemented!() }
pub assume_specification<T, A: core::alloc::Allocator> [Vec::<T, A>::shrink_to] (v: &mut Vec<T, A>, min_capacity: usize)
    ensures final(v)@ == old(v)@;
impl MyIntf {
    #[verifier::external_body]
    pub fn next_ifaddr_v4(&self) -> (r: Option<&IfAddr>) { unimplemented!() }
    #[verifier::external_body]
    pub fn next_ifaddr_v6(&self) -> (r: Option<&IfAddr>) { unimplemented!() }
}
#[verifier::external_body]
pub fn vx_intf_id(intf: &MyIntf) -> (r: InterfaceId)
    ensures r.index == intf.index, r.name@ == intf.name@,
{ unimplemented!() }
impl DnsIncoming {
    // the decoder (unit decoder: every property of C01 is stated over `data`): it must be given one datagram, not the receive buffer
    #[verifier::external_body]
    pub fn new(data: Vec<u8>, interface_id: InterfaceId) -> (r: Result<DnsIncoming>)
        requires is_datagram(data@), // @props C01
    { unimplemented!() }
    #[verifier::external_body]
    pub fn is_query(&self) -> (r: bool) { unimplemented!() }
    #[verifier::external_body]
    pub fn is_response(&self) -> (r: bool) { unimplemented!() }
}
impl Zeroconf {
    #[verifier::external_body]
    pub fn handle_query(&mut self, msg: DnsIncoming, if_index: u32, addr: SocketAddr) { unimplemented!() }
    #[verifier::external_body]
    pub fn handle_response(&mut self, msg: DnsIncoming, if_index: u32) { unimplemented!() }
}
// ---- handle_expired_probes ----
#[verifier::external_body]
#[verifier::reject_recursive_types(T)]
pub struct Sender<T> { x: core::marker::PhantomData<T> }
// what has been handed to the monitors so far (ghost log; the real notify_monitors also drops disconnected monitors)
pub uninterp spec fn sent_log(m: Vec<Sender<DaemonEvent>>) -> Seq<DaemonEvent>;
#[verifier::external_body]
pub fn notify_monitors(monitors: &mut Vec<Sender<DaemonEvent>>, event: DaemonEvent)
    ensures sent_log(*final(monitors)) == sent_log(*old(monitors)).push(event),
{ unimplemented!() }
// `opt_string.as_deref()`
#[verifier::external_body]
pub fn vx_opt_str(o: &Option<String>) -> (r: Option<&str>)
    ensures r is Some <==> o is Some, r is Some ==> r->Some_0@ == o->Some_0@,
{ unimplemented!() }
// `vec.extend(other_vec)`
#[verifier::external_body]
pub fn vx_vec_extend<T>(v: &mut Vec<T>, other: Vec<T>)
    ensures final(v)@ == old(v)@ + other@,
{ unimplemented!() }
// a NameChange event for record r of a finished probe
pub open spec fn is_name_change(e: DaemonEvent, r: DnsRecordBox, intf: Seq<char>) -> bool {
    e is NameChange && e->NameChange_0.original@ == r.rec().entry.name@ && r.rec().new_name is Some && e->NameChange_0.new_name@ == r.rec().new_name->Some_0@
    && e->NameChange_0.rr_type == r.rec().entry.ty && e->NameChange_0.intf_name@ == intf
}
pub open spec fn first_at(names: Seq<String>, j: int) -> bool { forall|j2: int| 0 <= j2 < j ==> (#[trigger] names[j2]) != names[j] }
pub open spec fn seen_before(names: Seq<String>, n: int, k: String) -> bool { exists|j: int| 0 <= j < n && (#[trigger] names[j]) == k }
// the active records under name k after the probes named by the first n entries have finished
pub open spec fn active_after(a0: Map<String, Vec<DnsRecordBox>>, p0: Map<String, Probe>, names: Seq<String>, n: int, k: String) -> Seq<DnsRecordBox> {
    let before = if a0.contains_key(k) { a0[k]@ } else { Seq::<DnsRecordBox>::empty() };
    if seen_before(names, n, k) && p0.contains_key(k) { before + p0[k].records@ } else { before }
}
pub open spec fn moved(p0: Map<String, Probe>, names: Seq<String>, n: int, k: String) -> bool { seen_before(names, n, k) && p0.contains_key(k) && p0[k].records@.len() > 0 }
pub open spec fn event_for(log: Seq<DaemonEvent>, from: int, r: DnsRecordBox, intf: Seq<char>) -> bool {
    exists|w: int| from <= w < log.len() && is_name_change(#[trigger] log[w], r, intf)
}
// ---- update_hostname ----
pub uninterp spec fn payload_srv(p: int) -> Option<DnsSrv>;
impl DnsRecordDyn {
    // `record.any().downcast_ref::<DnsSrv>()` (dyn Any; assumed): the SRV record behind the box
    #[verifier::external_body]
    pub fn as_srv(&self) -> (r: Option<&DnsSrv>)
        ensures r is Some <==> payload_srv(self.payload()) is Some, r is Some ==> *r->Some_0 == payload_srv(self.payload())->Some_0 && r->Some_0.record == self.rec(),
    { unimplemented!() }
}
impl DnsSrv {
    // derived Clone
    #[verifier::external_body]
    pub fn clone(&self) -> (r: Self) ensures r == *self { unimplemented!() }
    // `Box::new(self)` behind the trait object
    #[verifier::external_body]
    pub fn boxed(self) -> (r: DnsRecordBox) ensures payload_srv(r.payload()) == Some(self), r.rec() == self.record { unimplemented!() }
    #[verifier::external_body]
    pub fn get_name(&self) -> (r: &str) ensures r@ == rec_name(self.record) { unimplemented!() }
    #[verifier::external_body]
    pub fn get_type(&self) -> (r: RRType) ensures r == self.record.entry.ty { unimplemented!() }
}
#[verifier::external_body]
pub fn vx_str_eq(a: &str, b: &str) -> (r: bool) ensures r == (a@ == b@) { unimplemented!() }
// an SRV record (of type SRV) whose target is the host that lost its name
pub open spec fn targets_old(r: DnsRecordBox, original: Seq<char>) -> bool {
    r.rec().entry.ty == RRType::SRV && payload_srv(r.payload()) is Some && payload_srv(r.payload())->Some_0.host@ == original
}
pub open spec fn keeps_target(original: Seq<char>) -> spec_fn(DnsRecordBox) -> bool { |r: DnsRecordBox| !targets_old(r, original) }
// x is a copy of such a record with the new target
pub open spec fn retargeted(x: DnsSrv, r: DnsRecordBox, new_name: Seq<char>) -> bool {
    payload_srv(r.payload()) is Some && x == (DnsSrv { host: x.host, ..payload_srv(r.payload())->Some_0 }) && x.host@ == new_name
}
pub open spec fn found_from(x: DnsSrv, l: Seq<DnsRecordBox>, n: int, original: Seq<char>, new_name: Seq<char>) -> bool {
    exists|i: int| 0 <= i < n && targets_old(#[trigger] l[i], original) && retargeted(x, l[i], new_name)
}
pub open spec fn clean_list(l: Seq<DnsRecordBox>, original: Seq<char>) -> bool { forall|i: int| 0 <= i < l.len() ==> !targets_old(#[trigger] l[i], original) }
pub open spec fn clean_probes(m: Map<String, Probe>, original: Seq<char>) -> bool { forall|k: String| #[trigger] m.contains_key(k) ==> clean_list(m[k].records@, original) }
pub proof fn lemma_filter_clean(l: Seq<DnsRecordBox>, original: Seq<char>)
    ensures clean_list(l.filter(keeps_target(original)), original),
    decreases l.len(),
{
    reveal_with_fuel(Seq::filter, 2);
    if l.len() > 0 {
        lemma_filter_clean(l.drop_last(), original);
        let f = l.filter(keeps_target(original));
        let fd = l.drop_last().filter(keeps_target(original));
        assert(f == (if keeps_target(original)(l.last()) { fd.push(l.last()) } else { fd }));
        assert forall|i: int| 0 <= i < f.len() implies !targets_old(#[trigger] f[i], original) by {
            if i < fd.len() { assert(f[i] == fd[i]); } else { assert(f[i] == l.last()); }
        }
    }
}
// iteration order of the HashMap stand-in enumerates every key once (textbook; see cacheintf_env.rs)
#[verifier::external_body]
pub proof fn axiom_entries_wf_p(m: HashMap<String, Probe>)
    ensures
        forall|i: int| 0 <= i < m.entries().len() ==> m@.contains_key((#[trigger] m.entries()[i]).0) && m@[m.entries()[i].0] == m.entries()[i].1,
        forall|k: String| m@.contains_key(k) ==> exists|i: int| 0 <= i < m.entries().len() && (#[trigger] m.entries()[i]).0 == k,
{}
