// ---- environment of the daemon units (trusted): collections, channels, opaque crate/external types ----

// Strings with equal contents are equal in specs (a String's only spec-visible content is its view).
#[verifier::external_body]
pub broadcast proof fn axiom_string_ext(a: String, b: String)
    ensures #![trigger a@, b@] a@ == b@ ==> a == b,
{}
// `&String == &String` goes through the blanket `impl PartialEq<&B> for &A` (no vstd spec, and its
// early-bound lifetimes cannot be matched by assume_specification): shim with the same body.
#[verifier::external_body]
pub fn vx_string_ref_eq(a: &String, b: &String) -> (r: bool)
    ensures r == (a@ == b@),
{ a == b }

pub uninterp spec fn lower(s: Seq<char>) -> Seq<char>;
#[verifier::external_body]
pub broadcast proof fn axiom_lower_idem(s: Seq<char>)
    ensures #[trigger] lower(lower(s)) == lower(s),
{}
pub assume_specification<T: Clone> [<T as std::borrow::ToOwned>::to_owned] (s: &T) -> (r: T)
    ensures cloned::<T>(*s, r);
pub assume_specification [str::to_lowercase] (s: &str) -> (r: String)
    ensures r@ == lower(s@);

// std::cmp::Reverse / std::collections::BinaryHeap<Reverse<u64>> as a multiset with min-extraction
pub struct Reverse<T>(pub T);
#[verifier::external_body]
#[verifier::reject_recursive_types(T)]
pub struct BinaryHeap<T> { x: core::marker::PhantomData<T> }
impl BinaryHeap<Reverse<u64>> {
    pub uninterp spec fn view(&self) -> Multiset<u64>;
    #[verifier::external_body]
    pub fn push(&mut self, v: Reverse<u64>)
        ensures final(self)@ == old(self)@.insert(v.0),
    { unimplemented!() }
    #[verifier::external_body]
    pub fn peek(&self) -> (r: Option<&Reverse<u64>>)
        ensures
            self@.len() == 0 ==> r is None,
            self@.len() > 0 ==> r is Some && self@.count(r->Some_0.0) > 0 && forall|x: u64| self@.count(x) > 0 ==> r->Some_0.0 <= x,
    { unimplemented!() }
    #[verifier::external_body]
    pub fn pop(&mut self) -> (r: Option<Reverse<u64>>)
        ensures
            old(self)@.len() == 0 ==> r is None && final(self)@ == old(self)@,
            old(self)@.len() > 0 ==> r is Some && old(self)@.count(r->Some_0.0) > 0 && (forall|x: u64| old(self)@.count(x) > 0 ==> r->Some_0.0 <= x)
                && final(self)@ == old(self)@.remove(r->Some_0.0),
    { unimplemented!() }
    #[verifier::external_body]
    pub fn len(&self) -> (r: usize)
        ensures r == self@.len(),
    { unimplemented!() }
}

// flume::Sender: sending is total; whether the receiver still listens is not known to the daemon
#[verifier::external_body]
#[verifier::reject_recursive_types(T)]
pub struct Sender<T> { x: core::marker::PhantomData<T> }
pub struct SendError {}
impl<T> Sender<T> {
    #[verifier::external_body]
    pub fn send(&self, ev: T) -> (r: core::result::Result<(), SendError>)
    { unimplemented!() }
}
impl<T> Clone for Sender<T> {
    #[verifier::external_body]
    fn clone(&self) -> (r: Self)
        ensures r == *self,
    { unimplemented!() }
}

// opaque external / crate types that the copied structs mention
#[verifier::external_body] pub struct Poll { x: u8 }
#[verifier::external_body] pub struct MioUdpSocket { x: u8 }
#[verifier::external_body] pub struct ScopedIp { x: u8 }
#[verifier::external_body] pub struct DaemonOption { x: u8 }
#[verifier::external_body] pub struct IfPredicate { x: u8 }

// std::time::Duration (only as_millis is used by the code under proof)
#[verifier::external_body]
pub struct Duration { x: u8 }
impl Duration {
    pub uninterp spec fn millis(&self) -> u128;
    #[verifier::external_body]
    pub fn as_millis(&self) -> (r: u128)
        ensures r == self.millis(),
    { unimplemented!() }
    // whole seconds (std: u64; a Duration holds at most u64::MAX seconds)
    #[verifier::external_body]
    pub fn as_secs(&self) -> (r: u64)
        ensures r as int == self.millis() as int / 1000,
    { unimplemented!() }
}

// R8 named havoc: an arbitrary value of any type (used only where the sidecar lists it)
#[verifier::external_body]
pub fn vx_any<T>() -> (r: T) { unimplemented!() }

// DnsCache: opaque; the three calls the handlers make, with a ghost log for the two mutating ones
#[verifier::external_body]
pub struct DnsCache { x: u8 }
impl DnsCache {
    pub uninterp spec fn removed_types(&self) -> Seq<Seq<char>>;
    pub uninterp spec fn verify_log(&self) -> Seq<(Seq<char>, Option<u64>)>;
    // what service_verify_queries answers (proved in unit cachewalk: the SRV question of the instance and the address questions of its targets)
    pub uninterp spec fn verify_list(&self, instance: Seq<char>, expire_at: Option<u64>) -> Seq<(String, RRType)>;
    #[verifier::external_body]
    pub fn remove_service_type(&mut self, ty_domain: &str)
        ensures
            final(self).removed_types() == old(self).removed_types().push(ty_domain@),
            final(self).verify_log() == old(self).verify_log(),
    { unimplemented!() }
    #[verifier::external_body]
    pub fn service_verify_queries(&mut self, instance: &str, expire_at: Option<u64>) -> (r: Vec<(String, RRType)>)
        ensures
            r@ == old(self).verify_list(instance@, expire_at),
            final(self).verify_log() == old(self).verify_log().push((instance@, expire_at)),
            final(self).removed_types() == old(self).removed_types(),
    { unimplemented!() }
}
