// opaque crate/external types of the daemon units that do not look inside records or services
#[verifier::external_body] pub struct Interface { x: u8 }
#[verifier::external_body] pub struct IfAddr { x: u8 }
// ServiceInfo: opaque but for its per-interface status table; DnsRegistry: opaque but for a ghost log of the
// announcements made with it (announce_service_on_intf) - what the re-send handler is specified against
#[verifier::external_body] pub struct DnsRegistry { x: u8 }
#[verifier::external_body] pub struct ServiceInfo { x: u8 }
impl ServiceInfo {
    pub uninterp spec fn statuses(&self) -> Map<u32, ServiceStatus>;
    // everything but the status table
    pub uninterp spec fn ident(&self) -> int;
    #[verifier::external_body]
    pub fn set_status(&mut self, if_index: u32, status: ServiceStatus)
        ensures final(self).statuses() == old(self).statuses().insert(if_index, status), final(self).ident() == old(self).ident(),
    { unimplemented!() }
    #[verifier::external_body]
    pub fn get_hostname(&self) -> (r: &str) { unimplemented!() }
}
impl DnsRegistry {
    // (service, interface, whether a packet went out) per call of announce_service_on_intf
    pub uninterp spec fn announce_log(&self) -> Seq<(int, MyIntf, bool)>;
    #[verifier::external_body]
    pub fn resolve_name<'a>(&'a self, name: &'a str) -> (r: &'a str) { unimplemented!() }
}
#[verifier::external_type_specification]
#[verifier::external_body]
pub struct ExIpAddr(IpAddr);
#[verifier::external_body] pub struct PktInfoUdpSocket { x: u8 }
#[verifier::external_body] pub struct SocketAddr { x: u8 }
