// opaque crate/external types of the daemon units that do not look inside records or services
#[verifier::external_body] pub struct Interface { x: u8 }
#[verifier::external_body] pub struct IfAddr { x: u8 }
#[verifier::external_body] pub struct DnsRegistry { x: u8 }
#[verifier::external_body] pub struct ServiceInfo { x: u8 }
#[verifier::external_type_specification]
#[verifier::external_body]
pub struct ExIpAddr(IpAddr);
#[verifier::external_body] pub struct PktInfoUdpSocket { x: u8 }
#[verifier::external_body] pub struct SocketAddr { x: u8 }
