// opaque crate/external types of the daemon units that do not look inside records or services
// if_addrs::Interface through the fields / methods the daemon code reads
pub struct Interface { pub name: String, pub addr: IfAddr, pub index: Option<u32> }
impl Interface {
    #[verifier::external_body]
    pub fn ip(&self) -> (r: IpAddr) { unimplemented!() }
}
pub assume_specification [IpAddr::is_ipv4] (a: &IpAddr) -> (r: bool);
#[verifier::external_body] pub struct IfAddr { x: u8 }
// ServiceInfo: opaque but for its per-interface status table; DnsRegistry: opaque but for a ghost log of the
// announcements made with it (announce_service_on_intf) - what the re-send handler is specified against
// DnsRegistry: the list of wake-up times its probes asked for (drained into the daemon's timer heap by the callers)
// is visible; the rest is opaque but for a ghost log of the announcements made with it
#[verifier::external_body] pub struct RegistryRest { x: u8 }
impl RegistryRest {
    pub uninterp spec fn announce_log(&self) -> Seq<(int, MyIntf, bool)>;
}
pub struct DnsRegistry { pub new_timers: Vec<u64>, pub rest: RegistryRest }
#[verifier::external_body] pub struct ServiceInfo { x: u8 }
impl ServiceInfo {
    pub uninterp spec fn statuses(&self) -> Map<u32, ServiceStatus>;
    // everything but the status table
    pub uninterp spec fn ident(&self) -> int;
    #[verifier::external_body]
    pub fn set_status(&mut self, if_index: u32, status: ServiceStatus)
        ensures final(self).statuses() == old(self).statuses().insert(if_index, status), final(self).ident() == old(self).ident(), final(self).fullname() == old(self).fullname(), final(self).auto_spec() == old(self).auto_spec(),
    { unimplemented!() }
    #[verifier::external_body]
    pub fn get_hostname(&self) -> (r: &str) { unimplemented!() }
    pub uninterp spec fn auto_spec(&self) -> bool;
    pub uninterp spec fn fullname(&self) -> Seq<char>;
    #[verifier::external_body]
    pub fn get_fullname(&self) -> (r: &str) ensures r@ == self.fullname() { unimplemented!() }
}
impl DnsRegistry {
    // (service, interface, whether a packet went out) per call of announce_service_on_intf
    pub open spec fn announce_log(&self) -> Seq<(int, MyIntf, bool)> { self.rest.announce_log() }
    #[verifier::external_body]
    pub fn resolve_name<'a>(&'a self, name: &'a str) -> (r: &'a str) { unimplemented!() }
}
#[verifier::external_type_specification]
#[verifier::external_body]
pub struct ExIpAddr(IpAddr);
#[verifier::external_body] pub struct PktInfoUdpSocket { x: u8 }
#[verifier::external_body] pub struct SocketAddr { x: u8 }
