// ---- crate functions called by the handlers under proof but not themselves extractable: assumed contracts ----
#[verifier::external_body]
pub fn vx_min_u32(a: u32, b: u32) -> (r: u32)
    ensures r == (if a <= b { a } else { b }),
{ core::cmp::min(a, b) }
#[verifier::external_body]
pub fn vx_min_u128(a: u128, b: u128) -> (r: u128)
    ensures r == (if a <= b { a } else { b }),
{ a.min(b) }

impl MyIntf {
    #[verifier::external_body]
    pub fn next_ifaddr_v4(&self) -> (r: Option<&IfAddr>) { unimplemented!() }
    #[verifier::external_body]
    pub fn next_ifaddr_v6(&self) -> (r: Option<&IfAddr>) { unimplemented!() }
}
#[verifier::external_body]
pub fn multicast_on_intf(packet: &[u8], if_name: &str, if_index: u32, if_addr: &IfAddr, socket: &PktInfoUdpSocket, port: u16) { unimplemented!() }

// builds the announcement of `info` for `intf` (prepare_announce, unit records) and multicasts it; assumed here
#[verifier::external_body]
pub fn announce_service_on_intf(dns_registry: &mut DnsRegistry, info: &ServiceInfo, intf: &MyIntf, sock: &PktInfoUdpSocket, port: u16) -> (r: MyResult<bool>)
    ensures final(dns_registry).announce_log() == old(dns_registry).announce_log().push((info.ident(), *intf, r == Ok::<bool, InternalError>(true))),
{ unimplemented!() }
// Vec::retain over try_send; only the monitor list changes
#[verifier::external_body]
pub fn notify_monitors(monitors: &mut Vec<Sender<DaemonEvent>>, event: DaemonEvent) { unimplemented!() }

// only these parts of the daemon state differ between a and b
pub open spec fn same_except_sched(a: Zeroconf, b: Zeroconf) -> bool {
    a == (Zeroconf { retransmissions: a.retransmissions, timers: a.timers, ..b })
}
pub open spec fn timers_superset(a: Multiset<u64>, b: Multiset<u64>) -> bool {
    forall|x: u64| a.count(x) >= b.count(x)
}
// every queued re-run that is due after t0 has a wake-up timer at (exactly) its due time   (C12).  The run loop pops the
// timers up to `now` and then executes the re-runs due up to `now`; in between, cover holds from `now` on only, so the
// handlers are specified for every floor t0 (cover_kept), and timers_cover is the case "all of them"
pub open spec fn cover_gt(z: Zeroconf, t0: int) -> bool {
    forall|i: int| 0 <= i < z.retransmissions@.len() && (#[trigger] z.retransmissions@[i]).next_time > t0 ==> z.timers@.count(z.retransmissions@[i].next_time) > 0
}
pub open spec fn timers_cover(z: Zeroconf) -> bool { cover_gt(z, -1) }
pub open spec fn cover_kept(a: Zeroconf, b: Zeroconf) -> bool {
    forall|t0: int| #![trigger cover_gt(a, t0)] #![trigger cover_gt(b, t0)] cover_gt(a, t0) ==> cover_gt(b, t0)
}
pub open spec fn is_browse_for(c: Command, ty: Seq<char>) -> bool {
    match c { Command::Browse(t, _, _, _) => t@ == ty, _ => false }
}
pub open spec fn is_rh_for(c: Command, host_lower: Seq<char>) -> bool {
    match c { Command::ResolveHostname(h, _, _, _) => lower(h@) == host_lower, _ => false }
}
pub open spec fn no_browse_for(rs: Seq<ReRun>, ty: Seq<char>) -> bool {
    forall|i: int| 0 <= i < rs.len() ==> !is_browse_for((#[trigger] rs[i]).command, ty)
}
pub open spec fn no_rh_for(rs: Seq<ReRun>, host_lower: Seq<char>) -> bool {
    forall|i: int| 0 <= i < rs.len() ==> !is_rh_for((#[trigger] rs[i]).command, host_lower)
}
// b is a with some elements removed, order kept, and every element that does not satisfy `gone` kept
// largest label (in bytes) that the encoder would split the name into
pub uninterp spec fn max_label(s: Seq<char>) -> nat;
// every queued re-run is one its handler accepts: search delays within 1 s ..= 1 h, follow-up try counter <= 3
pub open spec fn cmd_sched_ok(c: Command) -> bool {
    match c {
        Command::Browse(_, d, _, _) => 1 <= d <= 3600,
        Command::ResolveHostname(_, d, _, _) => 1 <= d <= 3600,
        Command::Resolve(_, n) => 1 <= n <= 3,
        _ => true,
    }
}
// the API hands a name to unregister over already lower-cased (my_services is keyed that way)   (C09)
pub open spec fn cmd_name_ok(c: Command) -> bool {
    match c {
        Command::Unregister(n, _) => n@ == lower(n@),
        _ => true,
    }
}
pub open spec fn cmd_ok(c: Command) -> bool { cmd_sched_ok(c) && cmd_name_ok(c) }
// the kinds of command that are ever queued for a later run
pub open spec fn rerun_kind(c: Command) -> bool {
    c is Browse || c is ResolveHostname || c is Resolve || c is Verify || c is UnregisterResend || c is RegisterResend
}
pub open spec fn rerun_ok(c: Command) -> bool { cmd_ok(c) && rerun_kind(c) }
// every hostname search is stored under a lower-cased name (add_hostname_resolver is the only inserter)
pub open spec fn keys_lower(z: Zeroconf) -> bool { forall|k: String| #[trigger] z.hostname_resolvers@.contains_key(k) ==> lower(k@) == k@ }
pub open spec fn queue_ok(z: Zeroconf) -> bool {
    forall|i: int| 0 <= i < z.retransmissions@.len() ==> rerun_ok((#[trigger] z.retransmissions@[i]).command)
}
pub open spec fn backoff(d: u32) -> u32 { if 2 * d <= 3600 { (2 * d) as u32 } else { 3600u32 } }
// set_ip_check_interval(u32 seconds) stores seconds * 1000
pub open spec fn interval_ok(z: Zeroconf) -> bool { z.ip_check_interval <= 0xFFFF_FFFFu64 * 1000 }
pub open spec fn sat_add(a: u64, b: u64) -> u64 { if a + b > u64::MAX { u64::MAX } else { (a + b) as u64 } }

impl Zeroconf {
    // &self senders: no daemon state is touched (they only write to sockets / the self-pipe)
    // wire contract as stub precondition: what is handed to the encoder must be encodable (every label
    // < 64 bytes), otherwise DnsOutPacket::write_utf8's assert! panics the daemon thread   (C15)
    #[verifier::external_body]
    pub fn send_query(&self, name: &str, qtype: RRType)
        requires max_label(name@) < 64, // @props C15
    { unimplemented!() }
    #[verifier::external_body]
    pub fn send_query_vec(&self, questions: &[(&str, RRType)])
        requires forall|i: int| 0 <= i < questions@.len() ==> max_label((#[trigger] questions@[i]).0@) < 64, // @props C15
    { unimplemented!() }
    #[verifier::external_body]
    pub fn unregister_service(&self, info: &ServiceInfo, intf: &MyIntf, sock: &PktInfoUdpSocket) -> (r: Vec<u8>) { unimplemented!() }

    // replays the cache to a new browser; may mark instances resolved and, through add_pending_resolve,
    // queue `Resolve` follow-ups (each with its timer).  Assumed; iterator/closure/dyn-Any code.
    #[verifier::external_body]
    pub fn query_cache_for_service(&mut self, ty_domain: &str, sender: &Sender<ServiceEvent>, now: u64)
        ensures
            *final(self) == (Zeroconf { retransmissions: final(self).retransmissions, timers: final(self).timers,
                                        pending_resolves: final(self).pending_resolves, resolved: final(self).resolved, ..*old(self) }),
            final(self).retransmissions@.len() >= old(self).retransmissions@.len(),
            final(self).retransmissions@.subrange(0, old(self).retransmissions@.len() as int) == old(self).retransmissions@,
            forall|i: int| old(self).retransmissions@.len() <= i < final(self).retransmissions@.len() ==>
                (#[trigger] final(self).retransmissions@[i]).command is Resolve && final(self).timers@.count(final(self).retransmissions@[i].next_time) > 0,
            timers_superset(final(self).timers@, old(self).timers@),
            forall|i: int| old(self).retransmissions@.len() <= i < final(self).retransmissions@.len() ==> rerun_ok((#[trigger] final(self).retransmissions@[i]).command),
    { unimplemented!() }
    // only sends AddressesFound events
    #[verifier::external_body]
    pub fn query_cache_for_hostname(&mut self, hostname: &str, sender: Sender<HostnameResolutionEvent>)
        ensures *final(self) == *old(self),
    { unimplemented!() }
    // HashMap::get_mut based; only the metrics map changes
    #[verifier::external_body]
    pub fn increase_counter(&mut self, counter: Counter, count: i64)
        ensures *final(self) == (Zeroconf { counters: final(self).counters, ..*old(self) }),
    { unimplemented!() }
    // sends ANY / A+AAAA for an unresolved instance (dyn Any downcast inside); takes &mut self but only reads
    #[verifier::external_body]
    pub fn query_unresolved(&mut self, instance: &str) -> (r: bool)
        ensures *final(self) == *old(self),
    { unimplemented!() }
}

// R8 named havoc for `query_vec` in exec_command_verify (names come from DnsCache::service_verify_queries):
// assumed to be encodable names - they were decoded from wire labels of at most 63 bytes
#[verifier::external_body]
pub fn vx_any_cached_names<'a>() -> (r: Vec<(&'a str, RRType)>)
    ensures forall|i: int| 0 <= i < r@.len() ==> max_label((#[trigger] r@[i]).0@) < 64,
{ unimplemented!() }

// ---- dispatcher and API side (unit schedule) ----
#[verifier::external_body]
#[verifier::reject_recursive_types(T)]
pub struct Receiver<T> { x: core::marker::PhantomData<T> }
// flume::bounded
#[verifier::external_body]
pub fn bounded<T>(cap: usize) -> (r: (Sender<T>, Receiver<T>)) { unimplemented!() }
impl ServiceDaemon {
    // the channel to the daemon thread; contract of the channel as stub precondition: every command handed to the
    // daemon is one its handlers accept (search delays within 1 s ..= 1 h)   (C19)
    #[verifier::external_body]
    pub fn send_cmd(&self, cmd: Command) -> (r: Result<()>)
        requires
            cmd_sched_ok(cmd), // @props C19
            cmd_name_ok(cmd), // @props C09
    { unimplemented!() }
}
// proved in unit validate
#[verifier::external_body]
pub fn check_domain_suffix(name: &str) -> (r: Result<()>) { unimplemented!() }
#[verifier::external_body]
pub fn check_hostname(hostname: &str) -> (r: Result<()>) { unimplemented!() }
// `for x in set` (HashSet::into_iter): the elements in some order
#[verifier::external_body]
pub fn vx_set_into_vec<K>(s: HashSet<K>) -> (r: Vec<K>)
    ensures forall|x: K| r@.contains(x) <==> s@.contains(x),
{ unimplemented!() }
// `match map.get_mut(&k) { Some(r) => r, None => map.entry(k).or_insert_with(DnsRegistry::new) }`: the registry of
// that interface, created empty if there was none (entry API; assumed)
#[verifier::external_body]
pub fn vx_registry_or_new(m: &mut HashMap<u32, DnsRegistry>, k: u32) -> (r: &mut DnsRegistry)
    ensures
        old(m)@.contains_key(k) ==> *r == old(m)@[k],
        !old(m)@.contains_key(k) ==> r.new_timers@.len() == 0,
        final(m)@ == old(m)@.insert(k, *final(r)),
{ unimplemented!() }
// `for addr in intf.addrs.iter().filter(|a| a.ip().is_ipv4()/is_ipv6()) { outgoing_addrs.push(addr.ip()); }`: the list
// only feeds the Announce monitor event
#[verifier::external_body]
pub fn vx_push_family_addrs(out: &mut Vec<IpAddr>, addrs: &HashSet<IfAddr>, v4: bool) { unimplemented!() }
// `v.drain(..)` consumed by a for loop: all elements in order, the vector is left empty
#[verifier::external_body]
pub fn vx_drain_all(v: &mut Vec<u64>) -> (r: Vec<u64>)
    ensures r@ == old(v)@, final(v)@.len() == 0,
{ unimplemented!() }
impl Zeroconf {
    // handlers that are not under contract here: assumed to keep the re-run queue acceptable and every queued
    // re-run covered by a timer (register_service queues RegisterResend re-runs with add_retransmission)
    // interface selection (unit select) and the OS interface list
    #[verifier::external_body]
    pub fn selected_intfs(&self, interfaces: Vec<Interface>) -> (r: HashSet<Interface>) { unimplemented!() }
    #[verifier::external_body]
    pub fn notify_monitors(&mut self, event: DaemonEvent)
        ensures *final(self) == (Zeroconf { monitors: final(self).monitors, ..*old(self) }),
    { unimplemented!() }
    #[verifier::external_body]
    pub fn exec_command_get_metrics(&mut self, resp_s: Sender<HashMap<String, i64>>)
        ensures *final(self) == (Zeroconf { counters: final(self).counters, ..*old(self) }),
    { unimplemented!() }
    #[verifier::external_body]
    pub fn process_set_option(&mut self, daemon_opt: DaemonOption)
        ensures final(self).retransmissions == old(self).retransmissions, final(self).timers == old(self).timers,
            interval_ok(*old(self)) ==> interval_ok(*final(self)),   // the only writer of ip_check_interval; fed by set_ip_check_interval(u32)
            final(self).hostname_resolvers == old(self).hostname_resolvers,   // options never touch the searches
    { unimplemented!() }
    #[verifier::external_body]
    pub fn del_interface_addr(&mut self, intf: &Interface)
        ensures queue_ok(*old(self)) ==> queue_ok(*final(self)), cover_kept(*old(self), *final(self)), final(self).ip_check_interval == old(self).ip_check_interval, final(self).hostname_resolvers == old(self).hostname_resolvers,
    { unimplemented!() }
    #[verifier::external_body]
    pub fn check_ip_changes(&mut self)
        ensures queue_ok(*old(self)) ==> queue_ok(*final(self)), cover_kept(*old(self), *final(self)), final(self).ip_check_interval == old(self).ip_check_interval, final(self).hostname_resolvers == old(self).hostname_resolvers,
    { unimplemented!() }
    #[verifier::external_body]
    pub fn send_cmd_to_self(&self, cmd: Command) -> (r: Result<()>) { unimplemented!() }
}

#[verifier::external_body]
pub fn my_ip_interfaces_inner(with_loopback: bool, with_apple_p2p: bool) -> (r: Vec<Interface>) { unimplemented!() }
// proved in unit validate
pub uninterp spec fn name_len_ok(ty_domain: Seq<char>, limit: u8) -> bool;
#[verifier::external_body]
pub fn check_service_name_length(ty_domain: &str, limit: u8) -> (r: Result<()>)
    ensures r is Ok <==> name_len_ok(ty_domain@, limit),
{ unimplemented!() }
impl ServiceInfo {
    pub uninterp spec fn ty(&self) -> Seq<char>;
    #[verifier::external_body]
    pub fn get_type(&self) -> (r: &str) ensures r@ == self.ty() { unimplemented!() }
    #[verifier::external_body]
    pub fn is_addr_auto(&self) -> (r: bool) ensures r == self.auto_spec() { unimplemented!() }
    // adds the interface's address to the service's address set; the name is untouched
    #[verifier::external_body]
    pub fn insert_ipaddr(&mut self, intf: &Interface)
        ensures final(self).fullname() == old(self).fullname(), final(self).auto_spec() == old(self).auto_spec(), final(self).statuses() == old(self).statuses(),
    { unimplemented!() }
}

// ---- probing_handler's callees (unit schedule): proved in unit probing / assumed ----
#[verifier::external_body] pub struct DnsOutgoing { x: u8 }
#[verifier::external_body] pub struct DnsQuestion { x: u8 }
impl DnsOutgoing {
    #[verifier::external_body]
    pub fn questions(&self) -> (r: &[DnsQuestion]) { unimplemented!() }
}
// check_probing (contract proved in unit probing): only adds timers
#[verifier::external_body]
pub fn check_probing(dns_registry: &mut DnsRegistry, timers: &mut BinaryHeap<Reverse<u64>>, now: u64) -> (r: (DnsOutgoing, Vec<String>))
    ensures timers_superset(final(timers)@, old(timers)@), final(dns_registry).announce_log() == old(dns_registry).announce_log(),
{ unimplemented!() }
#[verifier::external_body]
pub fn send_dns_outgoing(out: &DnsOutgoing, my_intf: &MyIntf, sock: &PktInfoUdpSocket, port: u16, source: Option<&IfAddr>, unicast_dest: Option<SocketAddr>) -> (r: MyResult<Vec<Vec<u8>>>)
{ unimplemented!() }
// moves the records of finished probes to `active`, records name changes, tells the monitors; returns the (lower-cased)
// names of the services that were waiting for those probes
#[verifier::external_body]
pub fn handle_expired_probes(expired_probes: Vec<String>, intf_name: &str, dns_registry: &mut DnsRegistry, monitors: &mut Vec<Sender<DaemonEvent>>) -> (r: HashSet<String>)
    ensures final(dns_registry).announce_log() == old(dns_registry).announce_log(),
{ unimplemented!() }
impl ServiceInfo {
    pub uninterp spec fn status_on(&self, if_index: u32) -> ServiceStatus;
    #[verifier::external_body]
    pub fn get_status(&self, intf: u32) -> (r: ServiceStatus) ensures r == self.status_on(intf) { unimplemented!() }
}

// field-level forms of queue_ok / timers_cover, for loop invariants that hold while a part of the daemon state is
// mutably borrowed (same bodies)
pub open spec fn queue_ok_rs(rs: Seq<ReRun>) -> bool {
    forall|i: int| 0 <= i < rs.len() ==> rerun_ok((#[trigger] rs[i]).command)
}
pub open spec fn cover_rs_gt(rs: Seq<ReRun>, timers: Multiset<u64>, t0: int) -> bool {
    forall|i: int| 0 <= i < rs.len() && (#[trigger] rs[i]).next_time > t0 ==> timers.count(rs[i].next_time) > 0
}
pub open spec fn cover_rs_kept(a: Zeroconf, rs: Seq<ReRun>, timers: Multiset<u64>) -> bool {
    forall|t0: int| #[trigger] cover_gt(a, t0) ==> cover_rs_gt(rs, timers, t0)
}

// ---- add_interface (unit schedule) ----
// The `match self.my_intfs.entry(if_index) { Occupied .. Vacant .. }` block (std Entry API, joins the multicast group):
// None: the interface was unknown and joining failed, nothing changed; Some(b): the interface is known now, b says
// whether the address is new to it
#[verifier::external_body]
pub fn vx_add_intf_addr(m: &mut HashMap<u32, MyIntf>, intf: &Interface, if_index: u32) -> (r: Option<bool>)
    ensures r is None ==> *final(m) == *old(m), r is Some ==> final(m)@.contains_key(if_index),
{ unimplemented!() }
impl Zeroconf {
    // builds and multicasts one question on one interface (the browse that registered the type already sent it once)
    #[verifier::external_body]
    pub fn send_query_on_intf(&self, name: &str, qtype: RRType, intf: &MyIntf) { unimplemented!() }
}
// the service was announced in this call: a log entry at or after position l0 for it that went out
pub open spec fn announced_since(s: ServiceInfo, log: Seq<(int, MyIntf, bool)>, l0: int) -> bool {
    exists|k: int| l0 <= k < log.len() && (#[trigger] log[k]).0 == s.ident() && log[k].2
}
pub open spec fn idx_of(intf: Interface) -> u32 { match intf.index { Some(i) => i, None => 0u32 } }
