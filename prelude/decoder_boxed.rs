// `boxed` is `Box::new(self)` in every impl; assumed (trusted) here because the box type is opaque.
impl DnsRecordExt for DnsAddress { open spec fn rec(&self) -> DnsRecord { self.record } #[verifier::external_body] fn boxed(self) -> DnsRecordBox { unimplemented!() } }
impl DnsRecordExt for DnsPointer { open spec fn rec(&self) -> DnsRecord { self.record } #[verifier::external_body] fn boxed(self) -> DnsRecordBox { unimplemented!() } }
impl DnsRecordExt for DnsSrv { open spec fn rec(&self) -> DnsRecord { self.record } #[verifier::external_body] fn boxed(self) -> DnsRecordBox { unimplemented!() } }
impl DnsRecordExt for DnsTxt { open spec fn rec(&self) -> DnsRecord { self.record } #[verifier::external_body] fn boxed(self) -> DnsRecordBox { unimplemented!() } }
impl core::fmt::Debug for DnsTxt { #[verifier::external_body] fn fmt(&self, f: &mut core::fmt::Formatter<'_>) -> core::fmt::Result { Ok(()) } }
impl DnsRecordExt for DnsHostInfo { open spec fn rec(&self) -> DnsRecord { self.record } #[verifier::external_body] fn boxed(self) -> DnsRecordBox { unimplemented!() } }
impl DnsRecordExt for DnsNSec { open spec fn rec(&self) -> DnsRecord { self.record } #[verifier::external_body] fn boxed(self) -> DnsRecordBox { unimplemented!() } }

// ---- decoder spec functions ----
pub open spec fn wf(s: DnsIncoming) -> bool { s.offset <= s.data@.len() && s.data@.len() <= isize::MAX }
pub open spec fn is_resp(flags: u16) -> bool { (flags & FLAGS_QR_MASK) == FLAGS_QR_RESPONSE }
// everything except `offset` (and the named section) is untouched
pub open spec fn frame_hdr(a: DnsIncoming, b: DnsIncoming) -> bool {
    a.data@ == b.data@ && a.id == b.id && a.flags == b.flags && a.num_questions == b.num_questions
    && a.num_answers == b.num_answers && a.num_authorities == b.num_authorities && a.num_additionals == b.num_additionals
}
pub open spec fn frame_secs(a: DnsIncoming, b: DnsIncoming) -> bool {
    a.questions@ == b.questions@ && a.answers@ == b.answers@ && a.authorities@ == b.authorities@ && a.additional@ == b.additional@
}
pub open spec fn ttl_rule(flags: u16, recs: Seq<DnsRecordBox>) -> bool {
    is_resp(flags) ==> forall|i: int| 0 <= i < recs.len() ==> (#[trigger] recs[i]).rec().ttl >= 1
}
