// ---- environment of unit `decoder` (trusted) ----
#[verifier::external_type_specification]
#[verifier::external_body]
pub struct ExIpAddr(IpAddr);
#[verifier::external_type_specification]
#[verifier::external_body]
pub struct ExIpv4Addr(Ipv4Addr);
#[verifier::external_type_specification]
#[verifier::external_body]
pub struct ExIpv6Addr(Ipv6Addr);
#[verifier::external_type_specification]
#[verifier::external_body]
pub struct ExUtf8Error(core::str::Utf8Error);
#[verifier::external_type_specification]
#[verifier::external_body]
pub struct ExTryFromSliceError(core::array::TryFromSliceError);

// UTF-8 byte length of a string view (chars).  Three axioms, all facts about UTF-8.
pub uninterp spec fn blen(s: Seq<char>) -> nat;
#[verifier::external_body]
pub broadcast proof fn axiom_blen_add(a: Seq<char>, b: Seq<char>)
    ensures #[trigger] blen(a + b) == blen(a) + blen(b),
{}
#[verifier::external_body]
pub broadcast proof fn axiom_blen_empty()
    ensures #[trigger] blen(Seq::<char>::empty()) == 0,
{}
#[verifier::external_body]
pub broadcast proof fn axiom_blen_dot()
    ensures #[trigger] blen(seq!['.']) == 1,
{}

pub assume_specification<T: Clone> [<[T]>::to_vec] (s: &[T]) -> (r: Vec<T>)
    ensures r@.len() == s@.len();

pub assume_specification [core::str::from_utf8] (v: &[u8]) -> (r: core::result::Result<&str, core::str::Utf8Error>)
    ensures r is Ok ==> blen(r->Ok_0@) == v@.len();

// `a += b` on String: vstd's operator-trait spec cannot be instantiated for String; shim with the same body.
#[verifier::external_body]
pub fn vx_push_str(s: &mut String, o: &str)
    ensures final(s)@ == old(s)@ + o@,
{ *s += o }
// `<&[u8] as TryInto<[u8; N]>>`: Verus does not normalise the associated Error type; shims with the same body.
#[verifier::external_body]
pub fn vx_try_into_4(s: &[u8]) -> (r: core::result::Result<[u8; 4], core::array::TryFromSliceError>)
    ensures s@.len() == 4 ==> r is Ok,
{ s.try_into() }
#[verifier::external_body]
pub fn vx_try_into_16(s: &[u8]) -> (r: core::result::Result<[u8; 16], core::array::TryFromSliceError>)
    ensures s@.len() == 16 ==> r is Ok,
{ s.try_into() }

pub open spec fn be16(a: u8, b: u8) -> u16 { ((a as u16) * 256 + (b as u16)) as u16 }
pub open spec fn be32(a: u8, b: u8, c: u8, d: u8) -> u32 { ((a as u32) * 16777216 + (b as u32) * 65536 + (c as u32) * 256 + (d as u32)) as u32 }
#[verifier::external_body]
pub const fn vx_u16_from_be_bytes(b: [u8; 2]) -> (r: u16)
    ensures r == be16(b[0], b[1]),
{ u16::from_be_bytes(b) }
#[verifier::external_body]
pub const fn vx_u32_from_be_bytes(b: [u8; 4]) -> (r: u32)
    ensures r == be32(b[0], b[1], b[2], b[3]),
{ u32::from_be_bytes(b) }

#[derive(Debug, Clone)]
pub struct InterfaceId { pub name: String, pub index: u32 }

// Stand-in for `Box<dyn DnsRecordExt>` (Verus: a dyn trait with a Debug supertrait, or a trait whose
// method mentions its own dyn type, is rejected).  Carries the boxed record's DnsRecord as a ghost view.
#[verifier::external_body]
#[derive(Debug)]
pub struct DnsRecordBox { x: Box<dyn core::fmt::Debug> }
impl DnsRecordBox {
    pub uninterp spec fn rec(&self) -> DnsRecord;
}
pub trait DnsRecordExt: Sized {
    spec fn rec(&self) -> DnsRecord;
    fn boxed(self) -> (r: DnsRecordBox)
        ensures r.rec() == self.rec();
}
