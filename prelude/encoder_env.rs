// ---- environment of unit `encoder` (trusted) ----
// IpAddr is specified transparently (its two variants), the address types stay opaque
#[verifier::external_type_specification]
pub struct ExIpAddr(IpAddr);
#[verifier::external_type_specification]
#[verifier::external_body]
pub struct ExIpv4Addr(Ipv4Addr);
#[verifier::external_type_specification]
#[verifier::external_body]
pub struct ExIpv6Addr(Ipv6Addr);

pub assume_specification<T: ?Sized, A: core::alloc::Allocator> [<Box<T, A> as core::convert::AsRef<T>>::as_ref] (b: &Box<T, A>) -> (r: &T)
    ensures r == &**b;

#[derive(Debug, Clone)]
pub struct InterfaceId { pub name: String, pub index: u32 }

// UTF-8 byte length of a string view and the largest label a name splits into (RFC 6763 escaping aware);
// both uninterpreted: the facts used about them are the assumed contracts of the string shims below.
pub uninterp spec fn blen(s: Seq<char>) -> nat;
pub uninterp spec fn max_label(s: Seq<char>) -> nat;
// a name the encoder accepts: labels of 1..=63 bytes, at most 255 bytes in all (the property's own quantifier / RFC 1035)
pub open spec fn name_ok(s: Seq<char>) -> bool { max_label(s) < 64 && blen(s) <= 255 }

pub open spec fn be16(a: u8, b: u8) -> u16 { ((a as u16) * 256 + (b as u16)) as u16 }
#[verifier::external_body]
pub fn vx_u16_to_be_bytes(v: u16) -> (r: [u8; 2])
    ensures be16(r[0], r[1]) == v,
{ v.to_be_bytes() }
// `v[i..i + 2].copy_from_slice(&x.to_be_bytes())`: vstd has no spec for Vec's IndexMut<Range>; shim, same body
#[verifier::external_body]
pub fn vx_vec_write_be16(v: &mut Vec<u8>, index: usize, value: u16)
    requires index + 2 <= old(v)@.len(),
    ensures
        final(v)@.len() == old(v)@.len(),
        forall|i: int| 0 <= i < old(v)@.len() && !(index <= i < index + 2) ==> final(v)@[i] == old(v)@[i],
        be16(final(v)@[index as int], final(v)@[index as int + 1]) == value,
{ v[index..index + 2].copy_from_slice(&value.to_be_bytes()) }
pub open spec fn be32(a: u8, b: u8, c: u8, d: u8) -> u32 { ((a as u32) * 16777216 + (b as u32) * 65536 + (c as u32) * 256 + (d as u32)) as u32 }
#[verifier::external_body]
pub fn vx_u32_to_be_bytes(v: u32) -> (r: [u8; 4])
    ensures be32(r[0], r[1], r[2], r[3]) == v,
{ v.to_be_bytes() }
#[verifier::external_body]
pub fn vx_ipv4_octets(a: &std::net::Ipv4Addr) -> (r: [u8; 4]) { a.octets() }
#[verifier::external_body]
pub fn vx_ipv6_octets(a: &std::net::Ipv6Addr) -> (r: [u8; 16]) { a.octets() }
#[verifier::external_body]
pub fn vx_u16_from_bool(b: bool) -> (r: u16)
    ensures r == (if b { 1u16 } else { 0u16 }),
{ u16::from(b) }
#[verifier::external_body]
pub fn vx_max_u64(a: u64, b: u64) -> (r: u64)
    ensures r == (if a >= b { a } else { b }),
{ core::cmp::max(a, b) }

// str shims (same std call in the body; assumed length facts)
#[verifier::external_body]
pub fn vx_str_len(s: &str) -> (r: usize)
    ensures r == blen(s@),
{ s.len() }
#[verifier::external_body]
pub fn vx_as_bytes(s: &str) -> (r: &[u8])
    ensures r@.len() == blen(s@),
{ s.as_bytes() }
#[verifier::external_body]
pub fn vx_strip_dot(name: &str) -> (r: &str)
    ensures blen(r@) <= blen(name@), max_label(r@) == max_label(name@),
{ name.strip_suffix('.').unwrap_or(name) }
#[verifier::external_body]
pub fn vx_join_dots(labels: &[String]) -> (r: String)
{ labels.join(".") }

// wire size of the first n labels: a length byte and the bytes of each
pub open spec fn labels_wire(labels: Seq<String>, n: int) -> int
    decreases n
{
    if n <= 0 { 0 } else { labels_wire(labels, n - 1) + blen(labels[n - 1]@) as int + 1 }
}
pub proof fn lemma_labels_wire_mono(labels: Seq<String>, a: int, b: int)
    requires 0 <= a <= b
    ensures labels_wire(labels, a) <= labels_wire(labels, b)
    decreases b - a
{
    if a < b { lemma_labels_wire_mono(labels, a, b - 1); }
}

pub open spec fn is_prefix(a: Seq<u8>, b: Seq<u8>) -> bool { a.len() <= b.len() && b.subrange(0, a.len() as int) =~= a }

// F3 rollback: `self.names.retain(|_, offset| (*offset as usize) < start_size)`; shim with that body
#[verifier::external_body]
pub fn vx_names_retain_below(names: &mut HashMap<String, u16>, start_size: usize)
    ensures
        forall|k: String| #[trigger] final(names)@.contains_key(k) <==> (old(names)@.contains_key(k) && (old(names)@[k] as usize) < start_size),
        forall|k: String| #[trigger] final(names)@.contains_key(k) ==> final(names)@[k] == old(names)@[k],
{ unimplemented!() }

// the same with `<=` (so that this one-character variant is judged by the verifier instead of being unsupported)
#[verifier::external_body]
pub fn vx_names_retain_below_eq(names: &mut HashMap<String, u16>, start_size: usize)
    ensures
        forall|k: String| #[trigger] final(names)@.contains_key(k) <==> (old(names)@.contains_key(k) && (old(names)@[k] as usize) <= start_size),
        forall|k: String| #[trigger] final(names)@.contains_key(k) ==> final(names)@[k] == old(names)@[k],
{ unimplemented!() }

// R8 named havoc (the result of `packet_list.into_iter().map(|p| p.data).collect()` in to_data_on_wire)
#[verifier::external_body]
pub fn vx_any<T>() -> (r: T) { unimplemented!() }
