// ---- encoder spec functions ----
pub open spec fn MAXP() -> int { 8972 }
// A packet is well formed when it has its header and every compression-table entry points at a byte that
// is in the packet, behind the header, and representable in a 14-bit pointer.
pub open spec fn pkt_wf(p: DnsOutPacket) -> bool {
    p.data@.len() >= 12
    && forall|k: String| #[trigger] p.names@.contains_key(k) ==> 12 <= p.names@[k] < p.data@.len() && p.names@[k] < 0x4000
}
// names only grow, old entries keep their offsets, new entries point into the appended bytes
pub open spec fn names_mono(o: DnsOutPacket, n: DnsOutPacket) -> bool {
    (forall|k: String| #[trigger] o.names@.contains_key(k) ==> n.names@.contains_key(k) && n.names@[k] == o.names@[k])
    && (forall|k: String| #[trigger] n.names@.contains_key(k) && !o.names@.contains_key(k) ==> o.data@.len() <= n.names@[k])
}
pub open spec fn appended(o: DnsOutPacket, n: DnsOutPacket) -> bool {
    pkt_wf(n) && is_prefix(o.data@, n.data@) && n.state == o.state && names_mono(o, n)
}
pub proof fn lemma_prefix_trans(a: Seq<u8>, b: Seq<u8>, c: Seq<u8>)
    requires is_prefix(a, b), is_prefix(b, c)
    ensures is_prefix(a, c)
{
    assert forall|i: int| 0 <= i < a.len() implies c.subrange(0, a.len() as int)[i] == a[i] by {
        assert(b.subrange(0, a.len() as int)[i] == a[i]);
        assert(c.subrange(0, b.len() as int)[i] == b[i]);
    }
}
// bytes were appended, table and state untouched
pub proof fn lemma_plain_append(o: DnsOutPacket, n: DnsOutPacket)
    requires pkt_wf(o), is_prefix(o.data@, n.data@), n.names == o.names, n.state == o.state
    ensures appended(o, n)
{}
pub proof fn lemma_appended_trans(a: DnsOutPacket, b: DnsOutPacket, c: DnsOutPacket)
    requires appended(a, b), appended(b, c), pkt_wf(a) || true
    ensures appended(a, c)
{
    lemma_prefix_trans(a.data@, b.data@, c.data@);
    assert forall|k: String| #[trigger] c.names@.contains_key(k) && !a.names@.contains_key(k) implies a.data@.len() <= c.names@[k] by {
        if b.names@.contains_key(k) { assert(c.names@[k] == b.names@[k]); }
    }
    assert forall|k: String| #[trigger] a.names@.contains_key(k) implies c.names@.contains_key(k) && c.names@[k] == a.names@[k] by {
        assert(b.names@.contains_key(k) && b.names@[k] == a.names@[k]);
    }
}
pub open spec fn rec_name(r: DnsRecord) -> Seq<char> {
    match r.new_name { Some(n) => n@, None => r.entry.name@ }
}
// `now` handed to write_record: 0 = write the full TTL, otherwise a time inside the record's life
pub open spec fn time_in_life(r: DnsRecord, now: u64) -> bool {
    now == 0 || (sane(r) && r.created <= now && now as int <= exp_at(r.created, r.ttl, 100))
}
pub open spec fn rec_ok(x: &dyn DnsRecordExt) -> bool { name_ok(rec_name(x.rec())) && x.rdata_ok() }

// questions: bytes the question section needs at most
pub open spec fn q_bytes(qs: Seq<DnsQuestion>, n: int) -> int
    decreases n
{
    if n <= 0 { 0 } else { q_bytes(qs, n - 1) + blen(qs[n - 1].entry.name@) as int + 6 }
}
pub proof fn lemma_q_bytes_mono(qs: Seq<DnsQuestion>, a: int, b: int)
    requires 0 <= a <= b
    ensures q_bytes(qs, a) <= q_bytes(qs, b), q_bytes(qs, b) - q_bytes(qs, a) >= 6 * (b - a)
    decreases b - a
{
    if a < b { lemma_q_bytes_mono(qs, a, b - 1); }
}
pub open spec fn msg_ok(m: DnsOutgoing) -> bool {
    (forall|i: int| 0 <= i < m.questions@.len() ==> name_ok((#[trigger] m.questions@[i]).entry.name@))
    && (forall|i: int| 0 <= i < m.answers@.len() ==> rec_ok(&*(#[trigger] m.answers@[i]).0) && time_in_life(m.answers@[i].0.rec(), m.answers@[i].1))
    && (forall|i: int| 0 <= i < m.authorities@.len() ==> rec_ok(&*(#[trigger] m.authorities@[i])))
    && (forall|i: int| 0 <= i < m.additionals@.len() ==> rec_ok(&*(#[trigger] m.additionals@[i])))
}
pub open spec fn questions_fit(m: DnsOutgoing) -> bool { 12 + q_bytes(m.questions@, m.questions@.len() as int) <= MAXP() }
pub open spec fn hdr16(p: DnsOutPacket, i: int) -> u16 { be16(p.data@[i], p.data@[i + 1]) }
