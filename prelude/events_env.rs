// ---- environment of unit `events` (trusted), on top of evlog_spec.rs ----
// `.map(|(l, _)| l)` on the Option of a pair reference
#[verifier::external_body]
pub fn vx_opt_fst<'a, A, B>(o: Option<&'a (A, B)>) -> (r: Option<&'a A>)
    ensures r is Some <==> o is Some, r is Some ==> *r->Some_0 == o->Some_0.0,
{ unimplemented!() }
// iteration order of the HashMap stand-in: every key exactly once, with its value (textbook; `iter()` states the first part)
pub open spec fn ev_entries_wf<V>(m: HashMap<String, V>) -> bool {
    (forall|i: int| 0 <= i < m.entries().len() ==> m@.contains_key((#[trigger] m.entries()[i]).0) && m@[m.entries()[i].0] == m.entries()[i].1)
    && (forall|k: String| m@.contains_key(k) ==> exists|i: int| 0 <= i < m.entries().len() && (#[trigger] m.entries()[i]).0 == k)
}
#[verifier::external_body]
pub proof fn axiom_ev_entries_wf<V>(m: HashMap<String, V>)
    ensures ev_entries_wf(m),
{}
// `for x in &hash_set`: every element, in some order
pub uninterp spec fn set_order<K>(s: HashSet<K>) -> Seq<K>;
#[verifier::external_body]
pub fn vx_set_iter<K>(s: &HashSet<K>) -> (r: &Vec<K>)
    ensures r@ == set_order(*s), forall|x: K| #[trigger] s@.contains(x) <==> r@.contains(x),
{ unimplemented!() }
// `for (k, v) in hash_map` (consuming): the entries in iteration order
#[verifier::external_body]
pub fn vx_map_into_vec<K, V>(m: HashMap<K, V>) -> (r: Vec<(K, V)>)
    ensures r@ == m.entries(),
{ unimplemented!() }
// DnsCache::get_addresses_for_host (proved in unit cachewalk: exactly the unexpired address records of the lower-cased name);
// here only its result is named
impl DnsCache {
    // (the result depends on the lower-cased name only: that is what unit cachewalk proves)
    pub uninterp spec fn addresses_under(&self, host_lower: Seq<char>) -> HashMap<String, HashSet<ScopedIp>>;
    pub open spec fn addresses_for(&self, host: Seq<char>) -> HashMap<String, HashSet<ScopedIp>> { self.addresses_under(lower(host)) }
    #[verifier::external_body]
    pub fn get_addresses_for_host(&self, host: &str) -> (r: HashMap<String, HashSet<ScopedIp>>)
        ensures r == self.addresses_for(host@),
    { unimplemented!() }
}
// ---- cache replay / resolution (query_cache_for_service, resolve_updated_instances) ----
impl DnsCache {
    pub uninterp spec fn ptr_list(&self, ty: Seq<char>) -> Option<Seq<DnsRecordIntf>>;
    #[verifier::external_body]
    pub fn get_ptr(&self, ty_domain: &str) -> (r: Option<&Vec<DnsRecordIntf>>)
        ensures r is Some <==> self.ptr_list(ty_domain@) is Some, r is Some ==> r->Some_0@ == self.ptr_list(ty_domain@)->Some_0,
    { unimplemented!() }
}
impl DnsRecordDyn {
    pub uninterp spec fn ptr_view(&self) -> Option<Seq<char>>;      // the target (alias) if this is a PTR record
    // `any().downcast_ref::<DnsPointer>()`
    #[verifier::external_body]
    pub fn as_ptr(&self) -> (r: Option<&DnsPointer>)
        ensures r is Some <==> self.ptr_view() is Some, r is Some ==> r->Some_0.alias@ == self.ptr_view()->Some_0,
    { unimplemented!() }
}
// `String::is_empty` / `str::is_empty` (no vstd spec): empty exactly when there is no character
#[verifier::external_body]
pub fn vx_string_is_empty(s: &String) -> (r: bool)
    ensures r == (s@.len() == 0),
{ s.is_empty() }
// `records.iter().filter(|r| P(r))` consumed by a `for` loop: references to the elements that satisfy P; `p` is the ghost
// reading of the closure's contract
#[verifier::external_body]
pub fn vx_filter_refs<'a, T, F: Fn(&T) -> bool>(v: &'a Vec<T>, f: F, p: Ghost<spec_fn(T) -> bool>) -> (r: Vec<&'a T>)
    requires forall|i: int| 0 <= i < v@.len() ==> f.requires((&#[trigger] v@[i],)), forall|x: &T, b: bool| #[trigger] f.ensures((x,), b) ==> b == p@(*x),
    ensures
        forall|i: int| 0 <= i < r@.len() ==> p@(*(#[trigger] r@[i])) && v@.contains(*r@[i]),
        forall|j: int| 0 <= j < v@.len() && p@(#[trigger] v@[j]) ==> exists|i: int| 0 <= i < r@.len() && *(#[trigger] r@[i]) == v@[j],
{ unimplemented!() }
pub open spec fn live_at(now: u64) -> spec_fn(DnsRecordIntf) -> bool { |r: DnsRecordIntf| live(r, now) }
// a live PTR record of the list names `alias`
pub open spec fn live_ptr_to(l: Option<Seq<DnsRecordIntf>>, alias: Seq<char>, now: u64) -> bool {
    l is Some && exists|j: int| 0 <= j < l->Some_0.len() && live(#[trigger] l->Some_0[j], now) && l->Some_0[j].record.ptr_view() == Some(alias)
}
// log entry k of a cache replay for (ty, sender): either ServiceFound(ty, a live PTR target), or a ServiceResolved of a valid
// service that directly follows the delivered ServiceFound of the same instance
pub open spec fn replay_entry_ok(l: Seq<Sent<ServiceEvent>>, n0: int, k: int, to: Sender<ServiceEvent>, ty: Seq<char>, ptrs: Option<Seq<DnsRecordIntf>>, now: u64) -> bool {
    l[k].to == to && match l[k].ev {
        ServiceEvent::ServiceFound(t, a) => t@ == ty && live_ptr_to(ptrs, a@, now),
        ServiceEvent::ServiceResolved(svc) => svc_valid(*svc) && svc.ty_domain@ == ty && k - 1 >= n0 && l[k - 1].ok && l[k - 1].to == to
            && l[k - 1].ev == ServiceEvent::ServiceFound(key_string(ty), svc.fullname),
        _ => false,
    }
}
pub open spec fn resolved_sent(l: Seq<Sent<ServiceEvent>>, n0: int, to: Sender<ServiceEvent>, name: Seq<char>) -> bool {
    exists|k: int| n0 <= k < l.len() && (#[trigger] l[k]).to == to && l[k].ev is ServiceResolved && l[k].ev->ServiceResolved_0.fullname@ == name
}
pub proof fn lemma_replay_push(l: Seq<Sent<ServiceEvent>>, x: Sent<ServiceEvent>, n0: int, to: Sender<ServiceEvent>, ty: Seq<char>, ptrs: Option<Seq<DnsRecordIntf>>, now: u64)
    requires 0 <= n0 <= l.len(), forall|k: int| n0 <= k < l.len() ==> #[trigger] replay_entry_ok(l, n0, k, to, ty, ptrs, now),
    ensures
        forall|k: int| n0 <= k < l.len() ==> #[trigger] replay_entry_ok(l.push(x), n0, k, to, ty, ptrs, now),
        forall|name: Seq<char>| resolved_sent(l, n0, to, name) ==> #[trigger] resolved_sent(l.push(x), n0, to, name),
        x.to == to && x.ev is ServiceResolved ==> resolved_sent(l.push(x), n0, to, x.ev->ServiceResolved_0.fullname@),
        forall|name: Seq<char>| #[trigger] resolved_sent(l.push(x), n0, to, name) ==> resolved_sent(l, n0, to, name) || (x.to == to && x.ev is ServiceResolved && x.ev->ServiceResolved_0.fullname@ == name),
{
    assert forall|name: Seq<char>| #[trigger] resolved_sent(l.push(x), n0, to, name) implies resolved_sent(l, n0, to, name) || (x.to == to && x.ev is ServiceResolved && x.ev->ServiceResolved_0.fullname@ == name) by {
        let lp = l.push(x);
        let k = choose|k: int| n0 <= k < lp.len() && (#[trigger] lp[k]).to == to && lp[k].ev is ServiceResolved && lp[k].ev->ServiceResolved_0.fullname@ == name;
        if k < l.len() { assert(lp[k] == l[k]); } else { assert(lp[k] == x); }
    }
    assert forall|k: int| n0 <= k < l.len() implies #[trigger] replay_entry_ok(l.push(x), n0, k, to, ty, ptrs, now) by {
        assert(replay_entry_ok(l, n0, k, to, ty, ptrs, now));
        assert(l.push(x)[k] == l[k]);
        if k - 1 >= n0 { assert(l.push(x)[k - 1] == l[k - 1]); }
    }
    assert forall|name: Seq<char>| resolved_sent(l, n0, to, name) implies #[trigger] resolved_sent(l.push(x), n0, to, name) by {
        let k = choose|k: int| n0 <= k < l.len() && (#[trigger] l[k]).to == to && l[k].ev is ServiceResolved && l[k].ev->ServiceResolved_0.fullname@ == name;
        assert(l.push(x)[k] == l[k]);
    }
    if x.to == to && x.ev is ServiceResolved { assert(l.push(x)[l.len() as int] == x); }
}
impl DnsRecordDyn {
    // trait default: get_record().is_expired(now)  (DnsRecord::is_expired: now >= expires; proved in unit lifetime)
    #[verifier::external_body]
    pub fn is_expired(&self, now: u64) -> (r: bool) ensures r == (now >= self.rec().expires) { unimplemented!() }
}
// ---- resolve_updated_instances ----
impl DnsCache {
    pub uninterp spec fn ptr_map(&self) -> HashMap<String, Vec<DnsRecordIntf>>;
    #[verifier::external_body]
    pub fn all_ptr(&self) -> (r: &HashMap<String, Vec<DnsRecordIntf>>) ensures *r == self.ptr_map() { unimplemented!() }
}
// &str lookups / removals on a HashSet<String> (Borrow<str>)
#[verifier::external_body]
pub fn vx_set_contains_str(s: &HashSet<String>, k: &str) -> (r: bool)
    ensures r == s@.contains(key_string(k@)),
{ unimplemented!() }
#[verifier::external_body]
pub fn vx_set_remove_str(s: &mut HashSet<String>, k: &str) -> (r: bool)
    ensures final(s)@ == old(s)@.remove(key_string(k@)), r == old(s)@.contains(key_string(k@)),
{ unimplemented!() }
// `map.entry(k).or_insert_with(HashSet::new).insert(v)`
#[verifier::external_body]
pub fn vx_map_set_insert(m: &mut HashMap<String, HashSet<String>>, k: String, v: String)
    ensures
        final(m)@.contains_key(k), final(m)@[k]@ == (if old(m)@.contains_key(k) { old(m)@[k]@.insert(v) } else { Set::<String>::empty().insert(v) }),
        forall|k2: String| k2 != k ==> (#[trigger] final(m)@.contains_key(k2) <==> old(m)@.contains_key(k2)) && (old(m)@.contains_key(k2) ==> final(m)@[k2] == old(m)@[k2]),
{ unimplemented!() }
// record r is a live PTR record naming an instance that the caller listed as updated
pub open spec fn ptr_due(r: DnsRecordIntf, upd: Set<String>, now: u64) -> bool {
    live(r, now) && r.record.ptr_view() is Some && upd.contains(key_string(r.record.ptr_view()->Some_0))
}
// a ServiceResolved that resolve_updated_instances may send: a valid service, to the browser of its type, for an
// instance that a live PTR record of that type names
pub open spec fn resolved_entry_ok(s: Sent<ServiceEvent>, q: Map<String, Sender<ServiceEvent>>, pm: Map<String, Vec<DnsRecordIntf>>, upd: Set<String>, now: u64) -> bool {
    s.ev is ServiceResolved && svc_valid(*s.ev->ServiceResolved_0)
    && q.contains_key(key_string(s.ev->ServiceResolved_0.ty_domain@)) && s.to == q[key_string(s.ev->ServiceResolved_0.ty_domain@)]
    && pm.contains_key(key_string(s.ev->ServiceResolved_0.ty_domain@))
    && live_ptr_to(Some(pm[key_string(s.ev->ServiceResolved_0.ty_domain@)]@), s.ev->ServiceResolved_0.fullname@, now)
}
pub proof fn lemma_resolved_extends(l0: Seq<Sent<ServiceEvent>>, l1: Seq<Sent<ServiceEvent>>, n0: int)
    requires extends(l0, l1), 0 <= n0 <= l0.len(),
    ensures
        forall|to: Sender<ServiceEvent>, name: Seq<char>| resolved_sent(l0, n0, to, name) ==> #[trigger] resolved_sent(l1, n0, to, name),
        forall|k: int| 0 <= k < l0.len() ==> #[trigger] l1[k] == l0[k],
{
    assert forall|k: int| 0 <= k < l0.len() implies #[trigger] l1[k] == l0[k] by {
        assert(l1.subrange(0, l0.len() as int)[k] == l0[k]);
    }
    assert forall|to: Sender<ServiceEvent>, name: Seq<char>| resolved_sent(l0, n0, to, name) implies #[trigger] resolved_sent(l1, n0, to, name) by {
        let k = choose|k: int| n0 <= k < l0.len() && (#[trigger] l0[k]).to == to && l0[k].ev is ServiceResolved && l0[k].ev->ServiceResolved_0.fullname@ == name;
        assert(l1[k] == l0[k]);
    }
}
// what has to have happened for a live PTR target `a` of a browsed type: ServiceResolved was handed to the browser, or the
// instance is in `waiting` (the set that gets follow-up queries) - and the first whenever the cache can resolve it
pub open spec fn outcome_ok(l: Seq<Sent<ServiceEvent>>, n0: int, to: Sender<ServiceEvent>, c: DnsCache, ty: Seq<char>, a: Seq<char>, now: u64, waiting: Set<String>) -> bool {
    (resolved_sent(l, n0, to, a) || waiting.contains(key_string(a)))
    && (ty.len() > 0 && a.len() > 0 && all_live_srv_resolvable(c, a, now) ==> resolved_sent(l, n0, to, a))
}
// ---- queries (R20 for the &self senders): what was asked, in order ----
pub uninterp spec fn name_has_five_labels(s: Seq<char>) -> bool;
// `name.split('.').count() >= 5`
#[verifier::external_body]
pub fn valid_instance_name(name: &str) -> (r: bool) ensures r == name_has_five_labels(name@) { unimplemented!() }
impl Zeroconf {
    // one packet with these questions goes out on every interface (encoder: unit encoder; known answers: unit cachewalk)
    #[verifier::external_body]
    pub fn send_query_vec(&self, questions: &[(&str, RRType)], vx_qlog: &mut Ghost<Seq<Seq<(Seq<char>, RRType)>>>)
        ensures final(vx_qlog)@ == old(vx_qlog)@.push(Seq::new(questions@.len(), |i: int| (questions@[i].0@, questions@[i].1))),
    { unimplemented!() }
}
pub open spec fn one_question(name: Seq<char>, t: RRType) -> Seq<(Seq<char>, RRType)> { seq![(name, t)] }
pub open spec fn both_addresses(host: Seq<char>) -> Seq<(Seq<char>, RRType)> { seq![(host, RRType::A), (host, RRType::AAAA)] }
// ---- handle_response, event side ----
pub struct InstanceChange { pub ty: RRType, pub name: String }   // local struct of handle_response, hoisted
impl DnsRecordDyn {
    // DnsRecordExt accessors through the trait object
    #[verifier::external_body]
    pub fn get_type(&self) -> (r: RRType) ensures r == self.rec().entry.ty { unimplemented!() }
    #[verifier::external_body]
    pub fn get_name(&self) -> (r: &str) ensures r@ == rec_name(self.rec()) { unimplemented!() }
}
// `msg.all_records()`: answers, then authorities, then additionals (an iterator chain in the code)
#[verifier::external_body]
pub fn vx_all_records(msg: DnsIncoming) -> (r: Vec<DnsRecordBox>)
    ensures r@ == msg.answers@ + msg.authorities@ + msg.additional@,
{ unimplemented!() }
// what one call of DnsCache::add_or_update answered: the record as it now stands in the cache, and whether it is new
pub ghost struct Added { pub rec: DnsRecordIntf, pub fresh: bool }
impl DnsCache {
    pub uninterp spec fn adds(&self) -> Seq<Option<Added>>;
    // proved in unit cacheadd; here only what it answers is logged
    #[verifier::external_body]
    pub fn add_or_update(&mut self, intf: &MyIntf, incoming: DnsRecordBox, timers: &mut Vec<u64>, is_for_us: bool) -> (r: Option<(&DnsRecordIntf, bool)>)
        ensures final(self).adds() == old(self).adds().push(match r { Some(p) => Some(Added { rec: *p.0, fresh: p.1 }), None => None }),
    { unimplemented!() }
    // proved in unit cache: the instances with an SRV record that targets the host
    pub uninterp spec fn instances_on(&self, host: Seq<char>) -> Seq<String>;
    #[verifier::external_body]
    pub fn get_instances_on_host(&self, host: &str) -> (r: Vec<String>) ensures r@ == self.instances_on(host@) { unimplemented!() }
}
// The closure `record_predicate` and the three `retain(&mut record_predicate)` calls: records that are already expired
// when they arrive are taken out of the message (and out of the cache, with a ServiceRemoved for a PTR).  FnMut
// closure over the cache: outside Verus; it only ever sends ServiceRemoved and does not call add_or_update.
#[verifier::external_body]
pub fn vx_drop_expired_records(msg: &mut DnsIncoming, cache: &mut DnsCache, queriers: &HashMap<String, Sender<ServiceEvent>>, now: u64, log: &mut Ghost<Seq<Sent<ServiceEvent>>>)
    ensures
        final(cache).adds() == old(cache).adds(), extends(old(log)@, final(log)@),
        forall|k: int| old(log)@.len() <= k < final(log)@.len() ==> (#[trigger] final(log)@[k]).ev is ServiceRemoved,
{ unimplemented!() }
pub open spec fn is_addr_change(c: InstanceChange) -> bool { c.ty == RRType::A || c.ty == RRType::AAAA }
// `changes.iter().filter(|c| c.ty == RRType::A || c.ty == RRType::AAAA)`
#[verifier::external_body]
pub fn vx_addr_changes(changes: &Vec<InstanceChange>) -> (r: Vec<&InstanceChange>)
    ensures
        forall|i: int| 0 <= i < r@.len() ==> is_addr_change(*(#[trigger] r@[i])) && changes@.contains(*r@[i]),
        forall|j: int| 0 <= j < changes@.len() && is_addr_change(#[trigger] changes@[j]) ==> exists|i: int| 0 <= i < r@.len() && *(#[trigger] r@[i]) == changes@[j],
{ unimplemented!() }
#[verifier::external_body]
pub fn vx_map_has_str<V>(m: &HashMap<String, V>, k: &str) -> (r: bool) ensures r == m_has(m@, k@) { unimplemented!() }
impl Zeroconf {
    // proved in unit conflict (on the reduced struct): registries, monitors and timers only
    #[verifier::external_body]
    pub fn conflict_handler(&mut self, msg: &DnsIncoming, if_index: u32)
        ensures *final(self) == (Zeroconf { dns_registry_map: final(self).dns_registry_map, timers: final(self).timers, monitors: final(self).monitors, ..*old(self) }),
    { unimplemented!() }
    #[verifier::external_body]
    pub fn add_timer(&mut self, next_time: u64)
        ensures *final(self) == (Zeroconf { timers: final(self).timers, ..*old(self) }),
    { unimplemented!() }
}
// the instance names a freshly stored record touches: the target of a PTR record (TTL > 1), the owner of an SRV / TXT
// record, every instance with an SRV record targeting the owner of an address record
pub open spec fn touches(c: DnsCache, a: Option<Added>, inst: Seq<char>) -> bool {
    a is Some && a->Some_0.fresh && ({
        let r = a->Some_0.rec.record;
        let ty = r.rec().entry.ty;
        (ty == RRType::PTR && r.rec().ttl > 1 && r.ptr_view() == Some(inst))
        || ((ty == RRType::SRV || ty == RRType::TXT) && rec_name(r.rec()) == inst)
        || ((ty == RRType::A || ty == RRType::AAAA) && c.instances_on(rec_name(r.rec())).contains(key_string(inst)))
    })
}
// a freshly stored PTR record (TTL > 1) of type `ty` naming `inst`
pub open spec fn new_ptr(a: Option<Added>, ty: Seq<char>, inst: Seq<char>) -> bool {
    a is Some && a->Some_0.fresh && a->Some_0.rec.record.rec().entry.ty == RRType::PTR && a->Some_0.rec.record.rec().ttl > 1
    && a->Some_0.rec.record.ptr_view() == Some(inst) && rec_name(a->Some_0.rec.record.rec()) == ty
}
// the entry handle_response puts on its `changes` list for a freshly stored record
pub open spec fn change_for(a: Option<Added>) -> Option<InstanceChange> {
    if a is Some && a->Some_0.fresh {
        let r = a->Some_0.rec.record;
        if r.rec().entry.ty == RRType::PTR && r.rec().ttl > 1 {
            if r.ptr_view() is Some { Some(InstanceChange { ty: RRType::PTR, name: key_string(r.ptr_view()->Some_0) }) } else { None }
        } else {
            Some(InstanceChange { ty: r.rec().entry.ty, name: key_string(rec_name(r.rec())) })
        }
    } else { None }
}
// what the last loop of handle_response must have put into `updated_instances` for one change
pub open spec fn change_covered(c: DnsCache, ch: InstanceChange, u: Set<String>) -> bool {
    ((ch.ty == RRType::PTR || ch.ty == RRType::SRV || ch.ty == RRType::TXT) ==> u.contains(ch.name))
    && ((ch.ty == RRType::A || ch.ty == RRType::AAAA) ==> forall|i: int| 0 <= i < c.instances_on(ch.name@).len() ==> u.contains(#[trigger] c.instances_on(ch.name@)[i]))
}
// a freshly stored address record of host `h`
pub open spec fn new_addr(a: Option<Added>, h: Seq<char>) -> bool {
    a is Some && a->Some_0.fresh && (a->Some_0.rec.record.rec().entry.ty == RRType::A || a->Some_0.rec.record.rec().entry.ty == RRType::AAAA) && rec_name(a->Some_0.rec.record.rec()) == h
}
// every address set the cache lists for `h` was handed to the resolver registered under the lower-cased name (if any)
pub open spec fn addresses_reported(l: Seq<Sent<HostnameResolutionEvent>>, n0: int, c: DnsCache, hr: Map<String, (Sender<HostnameResolutionEvent>, Option<u64>)>, h: Seq<char>, upto: int) -> bool {
    m_has(hr, lower(h)) ==> forall|e: int| 0 <= e < upto ==> handed_over(l, n0, hr[key_string(lower(h))].0,
        HostnameResolutionEvent::AddressesFound((#[trigger] c.addresses_for(h).entries()[e]).0, c.addresses_for(h).entries()[e].1))
}
pub proof fn lemma_handed_extends<T>(l0: Seq<Sent<T>>, l1: Seq<Sent<T>>, n0: int)
    requires extends(l0, l1), 0 <= n0 <= l0.len(),
    ensures forall|to: Sender<T>, ev: T| handed_over(l0, n0, to, ev) ==> #[trigger] handed_over(l1, n0, to, ev),
{
    assert forall|k: int| 0 <= k < l0.len() implies #[trigger] l1[k] == l0[k] by {
        assert(l1.subrange(0, l0.len() as int)[k] == l0[k]);
    }
    assert forall|to: Sender<T>, ev: T| handed_over(l0, n0, to, ev) implies #[trigger] handed_over(l1, n0, to, ev) by {
        if sent_since(l0, n0, to, ev) {
            let k = choose|k: int| n0 <= k < l0.len() && (#[trigger] l0[k]).to == to && l0[k].ev == ev;
            assert(l1[k] == l0[k]);
        } else {
            let k = choose|k: int| n0 <= k < l0.len() && (#[trigger] l0[k]).to == to && !l0[k].ok;
            assert(l1[k] == l0[k]);
        }
    }
}
// ---- exec_command_browse, event side ----
#[verifier::external_body]
pub fn vx_min_u32(a: u32, b: u32) -> (r: u32)
    ensures r == (if a <= b { a } else { b }),
{ core::cmp::min(a, b) }
impl Zeroconf {
    // HashMap::get_mut based; only the metrics map changes
    #[verifier::external_body]
    pub fn increase_counter(&mut self, counter: Counter, count: i64)
        ensures *final(self) == (Zeroconf { counters: final(self).counters, ..*old(self) }),
    { unimplemented!() }
    // proved in unit schedule
    #[verifier::external_body]
    pub fn add_retransmission(&mut self, next_time: u64, command: Command)
        ensures *final(self) == (Zeroconf { retransmissions: final(self).retransmissions, timers: final(self).timers, ..*old(self) }),
    { unimplemented!() }
}
pub proof fn lemma_extends_idx<T>(a: Seq<Sent<T>>, b: Seq<Sent<T>>)
    requires extends(a, b),
    ensures forall|k: int| 0 <= k < a.len() ==> #[trigger] b[k] == a[k],
{
    assert forall|k: int| 0 <= k < a.len() implies #[trigger] b[k] == a[k] by {
        assert(b.subrange(0, a.len() as int)[k] == a[k]);
    }
}
// ---- exec_command_resolve_hostname, event side ----
impl Zeroconf {
    // proved in unit schedule: the resolver is stored under the lower-cased name (with its deadline and timer)
    #[verifier::external_body]
    pub fn add_hostname_resolver(&mut self, hostname: String, listener: Sender<HostnameResolutionEvent>, timeout: Option<u64>)
        ensures *final(self) == (Zeroconf { hostname_resolvers: final(self).hostname_resolvers, timers: final(self).timers, ..*old(self) }),
    { unimplemented!() }
}
// ---- exec_command_unregister, reply and goodbye side ----
// R20 for Zeroconf::unregister_service (proved in unit goodbye: builds and multicasts the goodbye on that interface and socket,
// returns the packet bytes): the same call plus a ghost log of (service, interface, socket, packet returned)
pub ghost struct GoodbyeSent { pub info: ServiceInfo, pub intf: MyIntf, pub sock: PktInfoUdpSocket, pub packet: Seq<u8> }
impl Zeroconf {
    #[verifier::external_body]
    pub fn unregister_service(&self, info: &ServiceInfo, intf: &MyIntf, sock: &PktInfoUdpSocket, vx_glog: &mut Ghost<Seq<GoodbyeSent>>) -> (r: Vec<u8>)
        ensures final(vx_glog)@ == old(vx_glog)@.push(GoodbyeSent { info: *info, intf: *intf, sock: *sock, packet: r@ }),
    { unimplemented!() }
}
pub open spec fn goodbye_to(l: Seq<GoodbyeSent>, n0: int, info: ServiceInfo, intf: MyIntf, sock: PktInfoUdpSocket) -> bool {
    exists|k: int| n0 <= k < l.len() && (#[trigger] l[k]).info == info && l[k].intf == intf && l[k].sock == sock
}
pub open spec fn goodbye_with(l: Seq<GoodbyeSent>, n0: int, info: ServiceInfo, idx: u32, sock: PktInfoUdpSocket, packet: Seq<u8>, my: Map<u32, MyIntf>) -> bool {
    exists|k: int| n0 <= k < l.len() && (#[trigger] l[k]).info == info && my.contains_key(idx) && l[k].intf == my[idx] && l[k].sock == sock && l[k].packet == packet
}
pub proof fn lemma_goodbye_push(l: Seq<GoodbyeSent>, x: GoodbyeSent, n0: int)
    requires 0 <= n0 <= l.len(),
    ensures
        forall|info: ServiceInfo, intf: MyIntf, sock: PktInfoUdpSocket| goodbye_to(l, n0, info, intf, sock) ==> #[trigger] goodbye_to(l.push(x), n0, info, intf, sock),
        goodbye_to(l.push(x), n0, x.info, x.intf, x.sock),
        forall|info: ServiceInfo, idx: u32, sock: PktInfoUdpSocket, p: Seq<u8>, my: Map<u32, MyIntf>| goodbye_with(l, n0, info, idx, sock, p, my) ==> #[trigger] goodbye_with(l.push(x), n0, info, idx, sock, p, my),
{
    assert forall|info: ServiceInfo, intf: MyIntf, sock: PktInfoUdpSocket| goodbye_to(l, n0, info, intf, sock) implies #[trigger] goodbye_to(l.push(x), n0, info, intf, sock) by {
        let k = choose|k: int| n0 <= k < l.len() && (#[trigger] l[k]).info == info && l[k].intf == intf && l[k].sock == sock;
        assert(l.push(x)[k] == l[k]);
    }
    assert(l.push(x)[l.len() as int] == x);
    assert forall|info: ServiceInfo, idx: u32, sock: PktInfoUdpSocket, p: Seq<u8>, my: Map<u32, MyIntf>| goodbye_with(l, n0, info, idx, sock, p, my) implies #[trigger] goodbye_with(l.push(x), n0, info, idx, sock, p, my) by {
        let k = choose|k: int| n0 <= k < l.len() && (#[trigger] l[k]).info == info && my.contains_key(idx) && l[k].intf == my[idx] && l[k].sock == sock && l[k].packet == p;
        assert(l.push(x)[k] == l[k]);
    }
}
// R20 for multicast_on_intf (socket code): the same call plus a ghost log of (bytes, interface index, socket)
pub ghost struct BytesSent { pub bytes: Seq<u8>, pub if_index: u32, pub sock: PktInfoUdpSocket }
#[verifier::external_body]
pub fn multicast_on_intf(packet: &[u8], if_name: &str, if_index: u32, if_addr: &IfAddr, socket: &PktInfoUdpSocket, port: u16, vx_blog: &mut Ghost<Seq<BytesSent>>)
    ensures final(vx_blog)@ == old(vx_blog)@.push(BytesSent { bytes: packet@, if_index: if_index, sock: *socket }),
{ unimplemented!() }
impl MyIntf {
    // the first address of that family (iterator `find` over a HashSet; assumed)
    #[verifier::external_body]
    pub fn next_ifaddr_v4(&self) -> (r: Option<&IfAddr>) { unimplemented!() }
    #[verifier::external_body]
    pub fn next_ifaddr_v6(&self) -> (r: Option<&IfAddr>) { unimplemented!() }
}
// ---- notify_monitors ----
pub enum TrySendError<T> { Full(T), Disconnected(T) }
// R20 for flume's `try_send`: the same call plus a ghost log (sender, event, outcome: 0 delivered, 1 full, 2 disconnected)
#[verifier::reject_recursive_types(T)]
pub ghost struct Tried<T> { pub to: Sender<T>, pub ev: T, pub res: int }
#[verifier::external_body]
pub fn vx_try_send<T>(s: &Sender<T>, ev: T, log: &mut Ghost<Seq<Tried<T>>>) -> (r: core::result::Result<(), TrySendError<T>>)
    ensures final(log)@ == old(log)@.push(Tried { to: *s, ev: ev, res: match r { Ok(_) => 0int, Err(TrySendError::Full(_)) => 1int, Err(TrySendError::Disconnected(_)) => 2int } }),
{ unimplemented!() }
// `event.clone()` (derived Clone): an equal event
#[verifier::external_body]
pub fn vx_clone_event(e: &DaemonEvent) -> (r: DaemonEvent) ensures r == *e { unimplemented!() }
// `matches!(e, TrySendError::Disconnected(_))`
pub fn vx_is_disconnected<T>(e: &TrySendError<T>) -> (r: bool)
    ensures r == (*e is Disconnected),
{ match e { TrySendError::Disconnected(_) => true, _ => false } }
#[verifier::external_body]
pub fn vx_vec_take<T>(v: &mut Vec<T>) -> (r: Vec<T>)
    ensures r@ == old(v)@, final(v)@ == Seq::<T>::empty(),
{ unimplemented!() }
// the monitors among the first k that did not turn out to be disconnected, in order
pub open spec fn still_connected(m0: Seq<Sender<DaemonEvent>>, l: Seq<Tried<DaemonEvent>>, n0: int, k: int) -> Seq<Sender<DaemonEvent>>
    decreases k,
{
    if k <= 0 { Seq::empty() }
    else if l[n0 + k - 1].res != 2 { still_connected(m0, l, n0, k - 1).push(m0[k - 1]) }
    else { still_connected(m0, l, n0, k - 1) }
}
pub proof fn lemma_still_connected_prefix(m0: Seq<Sender<DaemonEvent>>, l: Seq<Tried<DaemonEvent>>, x: Tried<DaemonEvent>, n0: int, k: int)
    requires 0 <= n0, 0 <= k, n0 + k <= l.len(),
    ensures still_connected(m0, l.push(x), n0, k) == still_connected(m0, l, n0, k),
    decreases k,
{
    if k > 0 {
        lemma_still_connected_prefix(m0, l, x, n0, k - 1);
        assert(l.push(x)[n0 + k - 1] == l[n0 + k - 1]);
    }
}
// ---- exec_command_verify, query side ----
// `record_vec.iter().map(|(record, rr_type)| (record.as_str(), *rr_type)).collect()`: the same pairs, names borrowed
#[verifier::external_body]
pub fn vx_as_query_vec<'a>(v: &'a Vec<(String, RRType)>) -> (r: Vec<(&'a str, RRType)>)
    ensures r@.len() == v@.len(), forall|i: int| 0 <= i < v@.len() ==> (#[trigger] r@[i]).0@ == v@[i].0@ && r@[i].1 == v@[i].1,
{ unimplemented!() }
// std::time::Duration::as_millis().min(u64::MAX as u128) as u64 (saturating conversion)
#[verifier::external_body]
pub fn vx_millis_u64(d: &Duration) -> (r: u64) { unimplemented!() }
pub open spec fn questions_of(v: Seq<(String, RRType)>) -> Seq<(Seq<char>, RRType)> { Seq::new(v.len(), |i: int| (v[i].0@, v[i].1)) }
