// ---- ghost event log (R20), shared by units `events` and `runloop` (trusted) ----
// R20 (ghost event log): a flume `Sender::send(&self, ev)` leaves no trace a contract could talk about.  `X.send(E)` is read as
// `vx_send(X, E, &mut *vx_log)` - the same call plus a ghost log of what was handed to which sender - and the log is threaded
// through the signatures as one extra ghost parameter `vx_log`.  Nothing executable depends on the log.
#[verifier::reject_recursive_types(T)]
pub ghost struct Sent<T> { pub to: Sender<T>, pub ev: T, pub ok: bool }
#[verifier::external_body]
pub fn vx_send<T>(s: &Sender<T>, ev: T, log: &mut Ghost<Seq<Sent<T>>>) -> (r: core::result::Result<(), SendError>)
    ensures final(log)@ == old(log)@.push(Sent { to: *s, ev: ev, ok: r is Ok }),
{ unimplemented!() }
// the log grew by exactly one entry: `ev` handed to `to`
pub open spec fn logged_one<T>(l0: Seq<Sent<T>>, l1: Seq<Sent<T>>, to: Sender<T>, ev: T) -> bool {
    l1.len() == l0.len() + 1 && l1.subrange(0, l0.len() as int) =~= l0 && l1[l0.len() as int].to == to && l1[l0.len() as int].ev == ev
}
// l1 extends l0
pub open spec fn extends<T>(l0: Seq<Sent<T>>, l1: Seq<Sent<T>>) -> bool {
    l1.len() >= l0.len() && l1.subrange(0, l0.len() as int) =~= l0
}
// `ev` was handed to `to` at or after position `from`
pub open spec fn sent_since<T>(l: Seq<Sent<T>>, from: int, to: Sender<T>, ev: T) -> bool {
    exists|k: int| from <= k < l.len() && (#[trigger] l[k]).to == to && l[k].ev == ev
}
// a send to `to` failed at or after `from`: the receiver is gone (flume: a disconnected channel stays disconnected), so
// whatever else was meant for it cannot be delivered and need not be attempted
pub open spec fn dead_since<T>(l: Seq<Sent<T>>, from: int, to: Sender<T>) -> bool {
    exists|k: int| from <= k < l.len() && (#[trigger] l[k]).to == to && !l[k].ok
}
pub open spec fn handed_over<T>(l: Seq<Sent<T>>, from: int, to: Sender<T>, ev: T) -> bool {
    sent_since(l, from, to, ev) || dead_since(l, from, to)
}
pub proof fn lemma_sent_push<T>(l: Seq<Sent<T>>, x: Sent<T>, from: int, to: Sender<T>, ev: T)
    requires 0 <= from <= l.len(),
    ensures sent_since(l, from, to, ev) ==> sent_since(l.push(x), from, to, ev), x.to == to && x.ev == ev ==> sent_since(l.push(x), from, to, ev),
{
    if sent_since(l, from, to, ev) {
        let k = choose|k: int| from <= k < l.len() && (#[trigger] l[k]).to == to && l[k].ev == ev;
        assert(l.push(x)[k] == l[k]);
    }
    if x.to == to && x.ev == ev {
        assert(l.push(x)[l.len() as int] == x);
    }
}
pub proof fn lemma_sent_mono<T>(l: Seq<Sent<T>>, x: Sent<T>, from: int)
    requires 0 <= from <= l.len(),
    ensures
        forall|to: Sender<T>, ev: T| sent_since(l, from, to, ev) ==> #[trigger] sent_since(l.push(x), from, to, ev),
        sent_since(l.push(x), from, x.to, x.ev),
        forall|to: Sender<T>| dead_since(l, from, to) ==> #[trigger] dead_since(l.push(x), from, to),
        !x.ok ==> dead_since(l.push(x), from, x.to),
        forall|to: Sender<T>, ev: T| handed_over(l, from, to, ev) ==> #[trigger] handed_over(l.push(x), from, to, ev),
{
    assert forall|to: Sender<T>| dead_since(l, from, to) implies #[trigger] dead_since(l.push(x), from, to) by {
        let k = choose|k: int| from <= k < l.len() && (#[trigger] l[k]).to == to && !l[k].ok;
        assert(l.push(x)[k] == l[k]);
    }
    if !x.ok { assert(l.push(x)[l.len() as int] == x); }
    assert forall|to: Sender<T>, ev: T| sent_since(l, from, to, ev) implies #[trigger] sent_since(l.push(x), from, to, ev) by {
        lemma_sent_push(l, x, from, to, ev);
    }
    lemma_sent_push(l, x, from, x.to, x.ev);
}
// String-keyed lookups by &str (the key is the String with these contents)
pub uninterp spec fn key_string(s: Seq<char>) -> String;
#[verifier::external_body]
pub broadcast proof fn axiom_key_string(s: Seq<char>)
    ensures #[trigger] key_string(s)@ == s,
{}
pub open spec fn m_has<V>(m: Map<String, V>, s: Seq<char>) -> bool { m.contains_key(key_string(s)) }
#[verifier::external_body]
pub fn vx_get_str<'a, V>(m: &'a HashMap<String, V>, k: &str) -> (r: Option<&'a V>)
    ensures r is Some <==> m_has(m@, k@), r is Some ==> *r->Some_0 == m@[key_string(k@)],
{ unimplemented!() }
// a ServiceRemoved that the arguments of notify_service_removal justify: its type is browsed, it went to that browser, and the
// instance is listed under that type
pub open spec fn removal_justified(q: Map<String, Sender<ServiceEvent>>, expired: Map<String, HashSet<String>>, s: Sent<ServiceEvent>) -> bool {
    s.ev is ServiceRemoved && q.contains_key(s.ev->ServiceRemoved_0) && q[s.ev->ServiceRemoved_0] == s.to
    && expired.contains_key(s.ev->ServiceRemoved_0) && expired[s.ev->ServiceRemoved_0]@.contains(s.ev->ServiceRemoved_1)
}
