// ---- goodbye (C09): the records of a service under the names announced on that interface, TTL 0 ----
pub open spec fn announced_name(z: Zeroconf, intf: MyIntf, name: Seq<char>) -> Seq<char> {
    if z.dns_registry_map@.contains_key(intf.index) { resolved(z.dns_registry_map@[intf.index].name_changes, name) } else { name }
}
pub open spec fn g_ptr(info: ServiceInfo, full: Seq<char>) -> RecShape {
    RecShape::Ptr { name: info.ty(), ttl: 0, flush: false, alias: full }
}
pub open spec fn g_sub(info: ServiceInfo, full: Seq<char>) -> Seq<RecShape> {
    match info.subtype() { Some(s) => seq![RecShape::Ptr { name: s@, ttl: 0, flush: false, alias: full }], None => Seq::<RecShape>::empty() }
}
pub open spec fn g_srv(info: ServiceInfo, full: Seq<char>, host: Seq<char>) -> RecShape {
    RecShape::Srv { name: full, ttl: 0, flush: true, priority: info.priority(), weight: info.weight(), port: info.port(), host }
}
pub open spec fn g_txt(info: ServiceInfo, full: Seq<char>) -> RecShape {
    RecShape::Txt { name: full, ttl: 0, flush: true, text: info.txt() }
}
pub open spec fn g_addrs(info: ServiceInfo, host: Seq<char>, addrs: Seq<IpAddr>) -> Seq<RecShape> {
    addrs.map_values(|a: IpAddr| RecShape::Addr { name: host, ttl: 0, flush: true, addr: a, is_a: a is V4 })
}
pub open spec fn goodbye_shape(out: DnsOutgoing, info: ServiceInfo, full: Seq<char>, host: Seq<char>, addrs: Seq<IpAddr>) -> bool {
    ashapes(out.answers@) =~= seq![g_ptr(info, full)] + g_sub(info, full) + seq![g_srv(info, full, host), g_txt(info, full)] + g_addrs(info, host, addrs)
    && (forall|k: int| 0 <= k < out.answers@.len() ==> (#[trigger] out.answers@[k]).1 == 0)
    && out.flags == FLAGS_QR_RESPONSE | FLAGS_AA && out.additionals@.len() == 0 && out.questions@.len() == 0 && out.authorities@.len() == 0
}
impl Zeroconf {
    #[verifier::external_body]
    pub fn send_cmd_to_self(&self, cmd: Command) -> (r: Result<()>) { unimplemented!() }
}
// `map.values().map(|info| info.get_fullname().to_string()).collect::<Vec<String>>()`: the registered (not lower-cased)
// full names in iteration order (a variant of the key collection in cleanup that a seeded change used)
#[verifier::external_body]
pub fn vx_fullnames_vec(m: &HashMap<String, ServiceInfo>) -> (r: Vec<String>)
    ensures r@.len() == m.entries().len(), forall|i: int| 0 <= i < r@.len() ==> (#[trigger] r@[i])@ == m.entries()[i].1.fullname(),
{ unimplemented!() }
