// ---- spec functions for record lifetime (C11/C10/C05) ----
pub open spec fn exp_at(c: u64, t: u32, p: int) -> int { c as int + (t as int) * p * 10 }
pub open spec fn sane(r: DnsRecord) -> bool { time_ok(r.created) }
// position of `refresh` in the 80 -> 85 -> 90 -> 95 -> 100 chain (4 = no refresh left)
pub open spec fn mark_idx(r: DnsRecord) -> int {
    if r.refresh as int == exp_at(r.created, r.ttl, 80) { 0 }
    else if r.refresh as int == exp_at(r.created, r.ttl, 85) { 1 }
    else if r.refresh as int == exp_at(r.created, r.ttl, 90) { 2 }
    else if r.refresh as int == exp_at(r.created, r.ttl, 95) { 3 }
    else { 4 }
}
pub open spec fn fresh(r: DnsRecord) -> bool {
    sane(r) && r.expires as int == exp_at(r.created, r.ttl, 100)
    && r.refresh as int == (if r.ttl > 1 { exp_at(r.created, r.ttl, 80) } else { exp_at(r.created, r.ttl, 100) })
}
