// ---- environment of unit `probing` (trusted) ----
// DnsRegistry.probing: HashMap<String, Probe>.  `iter_mut()` as a slice iterator over the entries in some order: the
// item pattern `(name, probe)` then binds `name: &mut String` where std binds `&String` (read-only use in the code).
// Each entry's final value is what was written through the item borrow; keys are only read.
impl ProbeMap {
    pub uninterp spec fn entries(&self) -> Seq<(String, Probe)>;
    #[verifier::external_body]
    pub fn iter_mut(&mut self) -> (r: core::slice::IterMut<'_, (String, Probe)>)
        ensures
            r.obeys_prophetic_iter_laws(), r.decrease() is Some,
            r.remaining().len() == old(self).entries().len(),
            forall|i: int| 0 <= i < old(self).entries().len() ==> *(#[trigger] r.remaining()[i]) == old(self).entries()[i],
            final(self).entries().len() == old(self).entries().len(),
            forall|i: int| 0 <= i < old(self).entries().len() ==> #[trigger] final(self).entries()[i] == *final(r.remaining()[i]),
    { unimplemented!() }
}
// `record.clone()` on Box<dyn DnsRecordExt> (clone_box through the trait object): an equal record
#[verifier::external_body]
pub fn vx_clone_box(b: &DnsRecordBox) -> (r: DnsRecordBox)
    ensures r == *b,
{ unimplemented!() }
pub open spec fn probe_due(p: Probe, now: u64) -> bool { now >= p.next_send }
pub open spec fn probe_done(p: Probe, now: u64) -> bool { now >= p.start_time + 750 }
// the name belongs to a probe (among the first n entries) that was due and whose 750 ms window was over
pub open spec fn finished_probe(name: String, ents: Seq<(String, Probe)>, n: int, now: u64) -> bool {
    exists|i: int| 0 <= i < n && (#[trigger] ents[i]).0 == name && probe_due(ents[i].1, now) && probe_done(ents[i].1, now)
}
// the question is an ANY question for the name of a probe (among the first n entries) that was due and not finished
pub open spec fn probe_question(q: DnsQuestion, ents: Seq<(String, Probe)>, n: int, now: u64) -> bool {
    q.entry.ty == RRType::ANY && exists|i: int| 0 <= i < n && (#[trigger] ents[i]).0@ == q.entry.name@ && probe_due(ents[i].1, now) && !probe_done(ents[i].1, now)
}
