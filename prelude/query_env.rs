// ---- environment of unit `query` (trusted) ----
pub const MDNS_PORT: u16 = 5353;
// std::net::SocketAddr is opaque (wire_env.rs); the two getters handle_query uses
impl SocketAddr {
    pub uninterp spec fn ip_spec(&self) -> IpAddr;
    pub uninterp spec fn port_spec(&self) -> u16;
    #[verifier::external_body]
    pub fn ip(&self) -> (r: IpAddr) ensures r == self.ip_spec() { unimplemented!() }
    #[verifier::external_body]
    pub fn port(&self) -> (r: u16) ensures r == self.port_spec() { unimplemented!() }
}
impl Clone for SocketAddr { #[verifier::external_body] fn clone(&self) -> (r: Self) ensures r == *self { unimplemented!() } }
impl Copy for SocketAddr {}
pub assume_specification [IpAddr::is_ipv4] (a: &IpAddr) -> (r: bool)
    ensures r == (*a is V4);
// &str == &str, String == String (no vstd spec for these PartialEq impls); shims with that body
#[verifier::external_body]
pub fn vx_str_eq(a: &str, b: &str) -> (r: bool) ensures r == (a@ == b@) { a == b }
#[verifier::external_body]
pub fn vx_string_eq(a: String, b: String) -> (r: bool) ensures r == (a@ == b@) { a == b }
// `v.extend(w)` for two Vecs
#[verifier::external_body]
pub fn vx_vec_extend<T>(v: &mut Vec<T>, w: Vec<T>)
    ensures final(v)@ == old(v)@ + w@,
{ v.extend(w) }
// `intf.addrs.iter().find(|if_addr| valid_ip_on_intf(&querier_ip, if_addr))`: some address of the interface or
// none; only used to pick the source address of the reply
#[verifier::external_body]
pub fn vx_matched_source<'a>(addrs: &'a HashSet<IfAddr>, querier_ip: &IpAddr) -> (r: Option<&'a IfAddr>) { unimplemented!() }
// `map.iter().find(|(k, v)| P(k, v)).map(|(_, v)| v)`: the value of some entry satisfying P, None iff no entry does
#[verifier::external_body]
pub fn vx_find_value<'a, K, V, F: Fn(&K, &V) -> bool>(m: &'a HashMap<K, V>, f: F) -> (r: Option<&'a V>)
    requires forall|k: &K, v: &V| #[trigger] f.requires((k, v)),
    ensures
        r is Some ==> exists|i: int| 0 <= i < m.entries().len() && #[trigger] m.entries()[i].1 == *r->Some_0 && f.ensures((&m.entries()[i].0, &m.entries()[i].1), true),
        r is None ==> forall|i: int| 0 <= i < m.entries().len() ==> f.ensures((&(#[trigger] m.entries()[i]).0, &m.entries()[i].1), false),
{ unimplemented!() }

// per-interface status and type matching of a registered service (ServiceInfo is opaque, records_env.rs)
impl ServiceInfo {
    pub uninterp spec fn status_on(&self, if_index: u32) -> ServiceStatus;
    pub uninterp spec fn type_matches(&self, q: Seq<char>) -> bool;
    #[verifier::external_body]
    pub fn get_status(&self, intf: u32) -> (r: ServiceStatus) ensures r == self.status_on(intf) { unimplemented!() }
    #[verifier::external_body]
    pub fn matches_type_or_subtype(&self, q_name: &str) -> (r: bool) ensures r == self.type_matches(q_name@) { unimplemented!() }
}
// DnsRegistry.probing: HashMap<String, Probe> looked up with &str
impl ProbeMap {
    #[verifier::external_body]
    pub fn get_mut(&mut self, k: &str) -> (r: Option<&mut Probe>) { unimplemented!() }
}
impl Probe {
    // simultaneous-probe tiebreaking (RFC 6762 8.2); touches only the probe
    #[verifier::external_body]
    pub fn tiebreaking(&mut self, msg: &DnsIncoming, probe_name: &str) { unimplemented!() }
}
// DnsEntryExt for DnsQuestion: `&self.entry.name`, `self.entry.ty`
impl DnsQuestion {
    #[verifier::external_body]
    pub fn entry_name(&self) -> (r: &str) ensures r@ == self.entry.name@ { unimplemented!() }
    #[verifier::external_body]
    pub fn entry_type(&self) -> (r: RRType) ensures r == self.entry.ty { unimplemented!() }
}
pub open spec fn unflush(s: RecShape) -> RecShape {
    match s {
        RecShape::Ptr { name, ttl, flush, alias } => RecShape::Ptr { name, ttl, flush: false, alias },
        RecShape::Srv { name, ttl, flush, priority, weight, port, host } => RecShape::Srv { name, ttl, flush: false, priority, weight, port, host },
        RecShape::Txt { name, ttl, flush, text } => RecShape::Txt { name, ttl, flush: false, text },
        RecShape::Addr { name, ttl, flush, addr, is_a } => RecShape::Addr { name, ttl, flush: false, addr, is_a },
        RecShape::Other => RecShape::Other,
    }
}
impl DnsOutgoing {
    // `for rec in &mut self.answers / additionals / authorities { rec.get_record_mut().entry.cache_flush = false; }`
    // (iteration over &mut Vec<Box<dyn ..>>): assumed
    #[verifier::external_body]
    pub fn clear_cache_flush_bits(&mut self)
        ensures
            out_frame(*final(self), *old(self)), final(self).known_answer_count == old(self).known_answer_count,
            ashapes(final(self).answers@) == ashapes(old(self).answers@).map_values(|s: RecShape| unflush(s)),
            shapes(final(self).additionals@) == shapes(old(self).additionals@).map_values(|s: RecShape| unflush(s)),
            final(self).answers@.len() == old(self).answers@.len(),
    { unimplemented!() }
}
impl Zeroconf {
    #[verifier::external_body]
    pub fn send_cmd_to_self(&self, cmd: Command) -> (r: Result<()>) { unimplemented!() }
    #[verifier::external_body]
    pub fn increase_counter(&mut self, counter: Counter, count: i64)
        ensures *final(self) == (Zeroconf { counters: final(self).counters, ..*old(self) }),
    { unimplemented!() }
    #[verifier::external_body]
    pub fn notify_monitors(&mut self, event: DaemonEvent)
        ensures *final(self) == (Zeroconf { monitors: final(self).monitors, ..*old(self) }),
    { unimplemented!() }
}
