// ---- what C06 allows in a response (unit query) ----
pub open spec fn META() -> Seq<char> { "_services._dns-sd._udp.local."@ }
pub open spec fn addr_on_link(s: ServiceInfo, intf: MyIntf, a: IpAddr) -> bool {
    s.addrs_on(intf, true).contains(a) || s.addrs_on(intf, false).contains(a)
}
// `sh` is a record of registered service `s` as the statement wants it on the link `intf`: names through the rename
// table (instance name compared without regard to case), values of the registration, TTL 120 s for SRV/address and
// 4500 s for PTR/TXT (the service's host/other TTL), cache-flush on SRV/TXT/address unless the reply is a legacy
// unicast one, addresses only out of the link's subnets
pub open spec fn record_of(sh: RecShape, s: ServiceInfo, reg: NameMap, intf: MyIntf, legacy: bool) -> bool {
    match sh {
        RecShape::Ptr { name, ttl, flush, alias } => ttl == s.other_ttl() && !flush && (
              (name == s.ty() && alias == resolved(reg, s.fullname()))
           || (s.subtype() is Some && name == s.subtype()->Some_0@ && alias == resolved(reg, s.fullname()))
           || (name == META() && alias == s.ty())),
        RecShape::Srv { name, ttl, flush, priority, weight, port, host } => ttl == s.host_ttl() && flush == !legacy
            && lower(name) == lower(resolved(reg, s.fullname())) && priority == s.priority() && weight == s.weight() && port == s.port()
            && host == resolved(reg, s.hostname()),
        RecShape::Txt { name, ttl, flush, text } => ttl == s.other_ttl() && flush == !legacy
            && lower(name) == lower(resolved(reg, s.fullname())) && text == s.txt(),
        RecShape::Addr { name, ttl, flush, addr, is_a } => ttl == s.host_ttl() && flush == !legacy
            && name == resolved(reg, s.hostname()) && addr_on_link(s, intf, addr) && is_a == (addr is V4),
        RecShape::Other => false,
    }
}
pub open spec fn is_meta_ptr(sh: RecShape) -> bool { sh is Ptr && sh->Ptr_name == META() }
// some registered service that is ANNOUNCED on this interface owns the record; except for its own address records
// and the type-enumeration PTR, the service has an address on this link in the family of the receiving socket
pub open spec fn owned(sh: RecShape, ents: Seq<(String, ServiceInfo)>, if_index: u32, reg: NameMap, intf: MyIntf, v4: bool, legacy: bool) -> bool {
    exists|i: int| 0 <= i < ents.len() && (#[trigger] ents[i]).1.status_on(if_index) == ServiceStatus::Announced
        && record_of(sh, ents[i].1, reg, intf, legacy)
        && (sh is Addr || is_meta_ptr(sh) || ents[i].1.addrs_on(intf, v4).len() > 0)
}
pub open spec fn all_owned(shs: Seq<RecShape>, ents: Seq<(String, ServiceInfo)>, if_index: u32, reg: NameMap, intf: MyIntf, v4: bool, legacy: bool) -> bool {
    forall|k: int| 0 <= k < shs.len() ==> owned(#[trigger] shs[k], ents, if_index, reg, intf, v4, legacy)
}
pub open spec fn echoed(out: DnsOutgoing, msg: DnsIncoming, n: int) -> bool {
    out.questions@.len() == n && forall|i: int| 0 <= i < n ==> (#[trigger] out.questions@[i]).entry.name@ == msg.questions@[i].entry.name@ && out.questions@[i].entry.ty == msg.questions@[i].entry.ty
}
pub proof fn lemma_unflush_owned(shs: Seq<RecShape>, ents: Seq<(String, ServiceInfo)>, if_index: u32, reg: NameMap, intf: MyIntf, v4: bool)
    requires all_owned(shs, ents, if_index, reg, intf, v4, false),
    ensures all_owned(shs.map_values(|s: RecShape| unflush(s)), ents, if_index, reg, intf, v4, true),
{
    let u = shs.map_values(|s: RecShape| unflush(s));
    assert forall|k: int| 0 <= k < u.len() implies owned(#[trigger] u[k], ents, if_index, reg, intf, v4, true) by {
        let sh = shs[k];
        assert(owned(sh, ents, if_index, reg, intf, v4, false));
        let i = choose|i: int| 0 <= i < ents.len() && (#[trigger] ents[i]).1.status_on(if_index) == ServiceStatus::Announced
            && record_of(sh, ents[i].1, reg, intf, false) && (sh is Addr || is_meta_ptr(sh) || ents[i].1.addrs_on(intf, v4).len() > 0);
        assert(record_of(unflush(sh), ents[i].1, reg, intf, true));
        assert(u[k] == unflush(sh));
    }
}
