// ---- environment of the record-building units (trusted) ----
// IpAddr is specified transparently (its two variants), the address types stay opaque
#[verifier::external_type_specification]
pub struct ExIpAddr(IpAddr);
#[verifier::external_type_specification]
#[verifier::external_body]
pub struct ExIpv4Addr(Ipv4Addr);
#[verifier::external_type_specification]
#[verifier::external_body]
pub struct ExIpv6Addr(Ipv6Addr);

pub assume_specification<T: ?Sized, A: core::alloc::Allocator> [<Box<T, A> as core::convert::AsRef<T>>::as_ref] (b: &Box<T, A>) -> (r: &T)
    ensures r == &**b;

pub struct InterfaceId { pub name: String, pub index: u32 }
impl Default for InterfaceId {
    #[verifier::external_body]
    fn default() -> (r: Self) { unimplemented!() }
}

// What a record says, as far as the properties care: kind, owner name (after a possible rename), TTL,
// cache-flush bit and RDATA.  Ghost only.
pub enum RecShape {
    Ptr { name: Seq<char>, ttl: u32, flush: bool, alias: Seq<char> },
    Srv { name: Seq<char>, ttl: u32, flush: bool, priority: u16, weight: u16, port: u16, host: Seq<char> },
    Txt { name: Seq<char>, ttl: u32, flush: bool, text: Seq<u8> },
    Addr { name: Seq<char>, ttl: u32, flush: bool, addr: IpAddr, is_a: bool },
    Other,
}
pub open spec fn rec_name(r: DnsRecord) -> Seq<char> {
    match r.new_name { Some(n) => n@, None => r.entry.name@ }
}

// Stand-in for `dyn DnsRecordExt` behind a Box / reference (Verus rejects a trait whose methods mention its
// own dyn type as a definition cycle).  Carries the record and its shape as ghost views.
#[verifier::external_body]
pub struct DnsRecordDyn { x: core::marker::PhantomData<u8> }
impl DnsRecordDyn {
    pub uninterp spec fn rec(&self) -> DnsRecord;
    pub uninterp spec fn shape(&self) -> RecShape;
    #[verifier::external_body]
    pub fn get_record(&self) -> (r: &DnsRecord)
        ensures *r == self.rec(),
    { unimplemented!() }
}
pub type DnsRecordBox = Box<DnsRecordDyn>;

// the six `boxed()` impls are `Box::new(self)`
#[verifier::external_body]
pub fn vx_boxed<T: DnsRecordExt + 'static>(t: T) -> (r: DnsRecordBox)
    ensures r.rec() == t.rec(), r.shape() == t.shape(),
{ unimplemented!() }

#[verifier::external_body]
pub fn vx_max_u64(a: u64, b: u64) -> (r: u64)
    ensures r == (if a >= b { a } else { b }),
{ core::cmp::max(a, b) }

// ---- crate types that the builders read but that are not under proof here ----
#[verifier::external_body] pub struct IfAddr { x: u8 }
#[verifier::external_body] pub struct Interface { x: u8 }
pub struct MyIntf { pub name: String, pub index: u32, pub addrs: HashSet<IfAddr> }
// `intf.into()` is `InterfaceId { name: my_intf.name.clone(), index: my_intf.index }`
#[verifier::external_body]
pub fn vx_intf_id(intf: &MyIntf) -> (r: InterfaceId)
    ensures r.index == intf.index, r.name@ == intf.name@,
{ unimplemented!() }

// ServiceInfo: opaque, read through its getters (each getter returns the corresponding ghost attribute)
#[verifier::external_body]
pub struct ServiceInfo { x: u8 }
impl ServiceInfo {
    pub uninterp spec fn ty(&self) -> Seq<char>;
    pub uninterp spec fn fullname(&self) -> Seq<char>;
    pub uninterp spec fn hostname(&self) -> Seq<char>;
    pub uninterp spec fn subtype(&self) -> Option<String>;
    pub uninterp spec fn other_ttl(&self) -> u32;
    pub uninterp spec fn host_ttl(&self) -> u32;
    pub uninterp spec fn priority(&self) -> u16;
    pub uninterp spec fn weight(&self) -> u16;
    pub uninterp spec fn port(&self) -> u16;
    pub uninterp spec fn txt(&self) -> Seq<u8>;
    pub uninterp spec fn needs_probe(&self) -> bool;
    // the service's addresses of that family that lie in a subnet of the interface (closure code; the subnet
    // predicate valid_ip_on_intf itself is proved by Kani)
    pub uninterp spec fn addrs_on(&self, intf: MyIntf, v4: bool) -> Seq<IpAddr>;
    #[verifier::external_body] pub fn get_type(&self) -> (r: &str) ensures r@ == self.ty() { unimplemented!() }
    #[verifier::external_body] pub fn get_fullname(&self) -> (r: &str) ensures r@ == self.fullname() { unimplemented!() }
    #[verifier::external_body] pub fn get_hostname(&self) -> (r: &str) ensures r@ == self.hostname() { unimplemented!() }
    #[verifier::external_body] pub fn get_subtype(&self) -> (r: &Option<String>) ensures *r == self.subtype() { unimplemented!() }
    #[verifier::external_body] pub fn get_other_ttl(&self) -> (r: u32) ensures r == self.other_ttl() { unimplemented!() }
    #[verifier::external_body] pub fn get_host_ttl(&self) -> (r: u32) ensures r == self.host_ttl() { unimplemented!() }
    #[verifier::external_body] pub fn get_priority(&self) -> (r: u16) ensures r == self.priority() { unimplemented!() }
    #[verifier::external_body] pub fn get_weight(&self) -> (r: u16) ensures r == self.weight() { unimplemented!() }
    #[verifier::external_body] pub fn get_port(&self) -> (r: u16) ensures r == self.port() { unimplemented!() }
    #[verifier::external_body] pub fn generate_txt(&self) -> (r: Vec<u8>) ensures r@ == self.txt() { unimplemented!() }
    #[verifier::external_body] pub fn requires_probe(&self) -> (r: bool) ensures r == self.needs_probe() { unimplemented!() }
    #[verifier::external_body] pub fn get_addrs_on_my_intf_v4(&self, my_intf: &MyIntf) -> (r: Vec<IpAddr>) ensures r@ == self.addrs_on(*my_intf, true) { unimplemented!() }
    #[verifier::external_body] pub fn get_addrs_on_my_intf_v6(&self, my_intf: &MyIntf) -> (r: Vec<IpAddr>) ensures r@ == self.addrs_on(*my_intf, false) { unimplemented!() }
}

// DnsRegistry: only the rename table is read by the code under proof.  `name_changes` is a
// HashMap<String, String> looked up with &str keys (Borrow<str>); stand-in keyed by the string's view.
#[verifier::external_body]
pub struct NameMap { x: u8 }
impl NameMap {
    pub uninterp spec fn view(&self) -> Map<Seq<char>, String>;
    #[verifier::external_body]
    pub fn get(&self, k: &str) -> (r: Option<&String>)
        ensures
            self@.contains_key(k@) ==> r == Some(&self@[k@]),
            !self@.contains_key(k@) ==> r is None,
    { unimplemented!() }
}
#[verifier::external_body]
pub struct ProbeMap { x: u8 }
pub struct DnsRegistry { pub name_changes: NameMap, pub probing: ProbeMap, pub rest: u8 }
pub open spec fn resolved(m: NameMap, name: Seq<char>) -> Seq<char> {
    if m@.contains_key(name) { m@[name]@ } else { name }
}
impl DnsRegistry {
    // entry-API / closure code over `probing` and `active`; never touches the rename table
    #[verifier::external_body]
    pub fn is_probing_done<T: DnsRecordExt>(&mut self, answer: &T, service_name: &str, start_time: u64) -> (r: bool)
        ensures final(self).name_changes == old(self).name_changes, final(self).done_log() == old(self).done_log().push(r),
    { unimplemented!() }
    // ghost: what is_probing_done answered, in call order (proved in unit conflict: true exactly for a record that is active)
    pub uninterp spec fn done_log(&self) -> Seq<bool>;
}
// one of the answers from position n0 on was "still probing"
pub open spec fn any_false(l: Seq<bool>, n0: int) -> bool { exists|k: int| n0 <= k < l.len() && !#[trigger] l[k] }
pub proof fn lemma_any_false_push(l: Seq<bool>, b: bool, n0: int)
    requires 0 <= n0 <= l.len(),
    ensures any_false(l.push(b), n0) == (any_false(l, n0) || !b),
{
    if any_false(l, n0) {
        let k = choose|k: int| n0 <= k < l.len() && !#[trigger] l[k];
        assert(!l.push(b)[k]);
    }
    if !b { assert(!l.push(b)[l.len() as int]); }
    if any_false(l.push(b), n0) {
        let k = choose|k: int| n0 <= k < l.push(b).len() && !#[trigger] l.push(b)[k];
        if k < l.len() { assert(!l[k]); }
    }
}
// `fastrand::u64(0..250)`
#[verifier::external_body]
pub fn vx_rand_u64(lo: u64, hi: u64) -> (r: u64)
    requires lo < hi,
    ensures lo <= r < hi,
{ unimplemented!() }

pub open spec fn is_resp(flags: u16) -> bool { (flags & FLAGS_QR_MASK) == FLAGS_QR_RESPONSE }

// `<String as ToString>::to_string` (vstd specifies it for str only); shim with the same body
#[verifier::external_body]
pub fn vx_string_to_string(s: &String) -> (r: String)
    ensures r@ == s@,
{ s.to_string() }
