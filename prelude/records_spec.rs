// ---- what the statement says the records of a registered service are (C06 / C07 / C09 / C10) ----
pub open spec fn ptr_of(info: ServiceInfo, reg: NameMap, ttl: u32) -> RecShape {
    RecShape::Ptr { name: info.ty(), ttl, flush: false, alias: resolved(reg, info.fullname()) }
}
pub open spec fn sub_ptr_of(info: ServiceInfo, reg: NameMap, sub: Seq<char>, ttl: u32) -> RecShape {
    RecShape::Ptr { name: sub, ttl, flush: false, alias: resolved(reg, info.fullname()) }
}
pub open spec fn srv_of(info: ServiceInfo, reg: NameMap, ttl: u32) -> RecShape {
    RecShape::Srv { name: resolved(reg, info.fullname()), ttl, flush: true, priority: info.priority(), weight: info.weight(), port: info.port(), host: resolved(reg, info.hostname()) }
}
pub open spec fn txt_of(info: ServiceInfo, reg: NameMap, ttl: u32) -> RecShape {
    RecShape::Txt { name: resolved(reg, info.fullname()), ttl, flush: true, text: info.txt() }
}
pub open spec fn addr_of(info: ServiceInfo, reg: NameMap, a: IpAddr, ttl: u32) -> RecShape {
    RecShape::Addr { name: resolved(reg, info.hostname()), ttl, flush: true, addr: a, is_a: a is V4 }
}
pub open spec fn shapes(v: Seq<DnsRecordBox>) -> Seq<RecShape> { v.map_values(|b: DnsRecordBox| b.shape()) }
pub open spec fn ashapes(v: Seq<(DnsRecordBox, u64)>) -> Seq<RecShape> { v.map_values(|b: (DnsRecordBox, u64)| b.0.shape()) }
pub open spec fn addr_shapes(info: ServiceInfo, reg: NameMap, addrs: Seq<IpAddr>, ttl: u32) -> Seq<RecShape> {
    addrs.map_values(|a: IpAddr| addr_of(info, reg, a, ttl))
}
pub open spec fn sub_part(info: ServiceInfo, reg: NameMap, ttl: u32) -> Seq<RecShape> {
    match info.subtype() { Some(s) => seq![sub_ptr_of(info, reg, s@, ttl)], None => Seq::<RecShape>::empty() }
}
// known-answer suppression (RFC 6762 7.1).  The statement fixes the behaviour strictly above and strictly
// below half of the TTL and leaves the exact half open; so do these two predicates.
pub open spec fn ka_above<T: DnsRecordExt>(mine: &T, other: &DnsRecordDyn) -> bool {
    mine.matches_spec(other) && 2 * other.rec().ttl > mine.rec().ttl
}
pub open spec fn ka_at_least<T: DnsRecordExt>(mine: &T, other: &DnsRecordDyn) -> bool {
    mine.matches_spec(other) && 2 * other.rec().ttl >= mine.rec().ttl
}
pub open spec fn listed_above<T: DnsRecordExt>(mine: &T, msg: &DnsIncoming) -> bool {
    exists|i: int| 0 <= i < msg.answers@.len() && ka_above(mine, &*(#[trigger] msg.answers@[i]))
}
pub open spec fn listed_at_least<T: DnsRecordExt>(mine: &T, msg: &DnsIncoming) -> bool {
    exists|i: int| 0 <= i < msg.answers@.len() && ka_at_least(mine, &*(#[trigger] msg.answers@[i]))
}
pub open spec fn out_frame(a: DnsOutgoing, b: DnsOutgoing) -> bool {
    a.flags == b.flags && a.id == b.id && a.multicast == b.multicast && a.questions@ == b.questions@ && a.authorities@ == b.authorities@
}

pub proof fn lemma_class_bits()
    ensures ((CLASS_IN | CLASS_CACHE_FLUSH) & CLASS_CACHE_FLUSH) != 0, (CLASS_IN & CLASS_CACHE_FLUSH) == 0,
{
    assert(((1u16 | 0x8000u16) & 0x8000u16) != 0) by (bit_vector);
    assert((1u16 & 0x8000u16) == 0) by (bit_vector);
}
