// The record trait as an environment item for units that only BUILD records (the accessor impls are
// one-liners `&self.record`, verified on the real text in unit `records`; here they are environment).
pub trait DnsRecordExt {
    spec fn rec(&self) -> DnsRecord;
    spec fn shape(&self) -> RecShape;
    spec fn matches_spec(&self, other: &DnsRecordDyn) -> bool;
    fn get_record(&self) -> (r: &DnsRecord)
        ensures *r == self.rec();
}
impl DnsRecordExt for DnsAddress {
    open spec fn rec(&self) -> DnsRecord { self.record }
    open spec fn shape(&self) -> RecShape { RecShape::Addr { name: rec_name(self.record), ttl: self.record.ttl, flush: self.record.entry.cache_flush, addr: self.address, is_a: self.record.entry.ty == RRType::A } }
    uninterp spec fn matches_spec(&self, other: &DnsRecordDyn) -> bool;
    fn get_record(&self) -> (r: &DnsRecord) { &self.record }
}
impl DnsRecordExt for DnsPointer {
    open spec fn rec(&self) -> DnsRecord { self.record }
    open spec fn shape(&self) -> RecShape { if self.record.entry.ty == RRType::PTR { RecShape::Ptr { name: rec_name(self.record), ttl: self.record.ttl, flush: self.record.entry.cache_flush, alias: self.alias@ } } else { RecShape::Other } }
    uninterp spec fn matches_spec(&self, other: &DnsRecordDyn) -> bool;
    fn get_record(&self) -> (r: &DnsRecord) { &self.record }
}
impl DnsRecordExt for DnsSrv {
    open spec fn rec(&self) -> DnsRecord { self.record }
    open spec fn shape(&self) -> RecShape { RecShape::Srv { name: rec_name(self.record), ttl: self.record.ttl, flush: self.record.entry.cache_flush, priority: self.priority, weight: self.weight, port: self.port, host: self.host@ } }
    uninterp spec fn matches_spec(&self, other: &DnsRecordDyn) -> bool;
    fn get_record(&self) -> (r: &DnsRecord) { &self.record }
}
impl DnsRecordExt for DnsTxt {
    open spec fn rec(&self) -> DnsRecord { self.record }
    open spec fn shape(&self) -> RecShape { RecShape::Txt { name: rec_name(self.record), ttl: self.record.ttl, flush: self.record.entry.cache_flush, text: self.text@ } }
    uninterp spec fn matches_spec(&self, other: &DnsRecordDyn) -> bool;
    fn get_record(&self) -> (r: &DnsRecord) { &self.record }
}
