// ---- environment of refresh_active_services (unit schedule; trusted) ----
impl DnsCache {
    // the refresh marks the cache walkers have handed out so far (ghost log; the walkers themselves: units cachewalk, cacherefresh)
    pub uninterp spec fn marks_out(&self) -> Set<u64>;
    #[verifier::external_body]
    pub fn refresh_due_ptr(&mut self, ty_domain: &str) -> (r: HashSet<u64>)
        ensures final(self).marks_out() == old(self).marks_out().union(r@), final(self).removed_types() == old(self).removed_types(), final(self).verify_log() == old(self).verify_log(),
    { unimplemented!() }
    #[verifier::external_body]
    pub fn refresh_due_srv_txt(&mut self, ty_domain: &str) -> (r: (HashMap<String, Vec<RRType>>, HashSet<u64>))
        ensures final(self).marks_out() == old(self).marks_out().union(r.1@), final(self).removed_types() == old(self).removed_types(), final(self).verify_log() == old(self).verify_log(),
    { unimplemented!() }
    #[verifier::external_body]
    pub fn refresh_due_hosts(&mut self, ty_domain: &str) -> (r: (HashSet<String>, HashSet<u64>))
        ensures final(self).marks_out() == old(self).marks_out().union(r.1@), final(self).removed_types() == old(self).removed_types(), final(self).verify_log() == old(self).verify_log(),
    { unimplemented!() }
}
impl Zeroconf {
    // send_query / send_query_vec for names that are already in use by an open search or came out of the cache: whether such a
    // name is encodable is K2's question and is reported where the name enters (browse / resolve_hostname), not here
    #[verifier::external_body]
    pub fn vx_send_query_held_name(&self, name: &str, qtype: RRType) { unimplemented!() }
    #[verifier::external_body]
    pub fn vx_send_query_vec_held_names(&self, questions: &[(&str, RRType)]) { unimplemented!() }
    #[verifier::external_body]
    pub fn vx_send_addr_queries_held_name(&self, hostname: &String) { unimplemented!() }
}
#[verifier::external_body]
pub fn vx_map_into_vec<K, V>(m: HashMap<K, V>) -> (r: Vec<(K, V)>)
    ensures r@.len() < 0x1_0000_0000, // assumed: fewer than 2^32 instances reported per call (counter arithmetic only)
{ unimplemented!() }
#[verifier::external_body]
pub fn vx_set_as_vec<'a, K>(s: &'a HashSet<K>) -> (r: &'a Vec<K>)
    ensures r@.len() < 0x1_0000_0000, // assumed likewise
{ unimplemented!() }
#[verifier::external_body]
pub fn vx_set_into_vec_u64(s: HashSet<u64>) -> (r: Vec<u64>)
    ensures forall|x: u64| #[trigger] s@.contains(x) ==> r@.contains(x),
{ unimplemented!() }
impl HashSet<u64> {
    #[verifier::external_body]
    pub fn extend_set(&mut self, other: HashSet<u64>) ensures final(self)@ == old(self)@.union(other@) { unimplemented!() }
}
