// ---- environment of unit `resolve` (trusted) ----
#[verifier::external_body] pub struct TxtProperties { x: u8 }
impl TxtProperties {
    #[verifier::external_body]
    pub fn new() -> (r: Self) ensures r.decoded_from() is None { unimplemented!() }
    // `dns_txt.text().into()` = From<&[u8]> = decode_txt_unique (unit txt / bounded stand-in)
    pub uninterp spec fn decoded_from(&self) -> Option<Seq<u8>>;
}
#[verifier::external_body]
pub fn vx_txt_from(text: &[u8]) -> (r: TxtProperties) ensures r.decoded_from() == Some(text@) { unimplemented!() }
impl DnsRecordDyn {
    // trait default: get_record().expires_soon(now)  (DnsRecord::expires_soon: now + 1000 >= expires; proved in unit lifetime)
    #[verifier::external_body]
    pub fn expires_soon(&self, now: u64) -> (r: bool) ensures r == (now + 1000 >= self.rec().expires) { unimplemented!() }
    pub uninterp spec fn srv_view(&self) -> Option<(Seq<char>, u16)>;     // (target, port) if this is an SRV record
    pub uninterp spec fn txt_view(&self) -> Option<Seq<u8>>;
    pub uninterp spec fn addr_view(&self) -> Option<ScopedIp>;
    #[verifier::external_body]
    pub fn as_srv(&self) -> (r: Option<&DnsSrv>)
        ensures r is Some <==> self.srv_view() is Some, r is Some ==> r->Some_0.host@ == self.srv_view()->Some_0.0 && r->Some_0.port == self.srv_view()->Some_0.1,
    { unimplemented!() }
    #[verifier::external_body]
    pub fn as_txt(&self) -> (r: Option<&DnsTxt>)
        ensures r is Some <==> self.txt_view() is Some, r is Some ==> r->Some_0.text@ == self.txt_view()->Some_0,
    { unimplemented!() }
    #[verifier::external_body]
    pub fn as_addr(&self) -> (r: Option<&DnsAddress>)
        ensures r is Some <==> self.addr_view() is Some, r is Some ==> r->Some_0.scoped() == self.addr_view()->Some_0 && r->Some_0.record == self.rec(),
    { unimplemented!() }
}
impl DnsAddress {
    pub uninterp spec fn scoped(&self) -> ScopedIp;
    // `ScopedIp::V4/V6 { addr, interface ids }` built from the address and the interface the record came in on
    #[verifier::external_body]
    pub fn address(&self) -> (r: ScopedIp) ensures r == self.scoped() { unimplemented!() }
    #[verifier::external_body]
    pub fn expires_soon(&self, now: u64) -> (r: bool) ensures r == (now + 1000 >= self.record.expires) { unimplemented!() }
}
// `records.iter().find(|r| P(r))`: the first element satisfying P
#[verifier::external_body]
pub fn vx_find_first<'a, T, F: Fn(&T) -> bool>(v: &'a Vec<T>, f: F) -> (r: Option<&'a T>)
    requires forall|x: &T| #[trigger] f.requires((x,)),
    ensures
        r is Some ==> exists|i: int| 0 <= i < v@.len() && #[trigger] v@[i] == *r->Some_0 && f.ensures((&v@[i],), true),
        r is None ==> forall|i: int| 0 <= i < v@.len() ==> f.ensures((&#[trigger] v@[i],), false),
{ unimplemented!() }
// the V4 branch merges the interface ids of an address that is already in the set (linear scan, remove, re-insert);
// either way the set afterwards holds what it held plus this address (possibly merged into an existing element)
pub uninterp spec fn ip_of(a: ScopedIp) -> int;
#[verifier::external_body]
pub fn vx_insert_scoped(s: &mut HashSet<ScopedIp>, a: ScopedIp)
    ensures forall|ip: int| has_ip(final(s)@, ip) <==> (has_ip(old(s)@, ip) || ip == ip_of(a)),
{ unimplemented!() }
pub open spec fn has_ip(s: Set<ScopedIp>, ip: int) -> bool { exists|a: ScopedIp| #[trigger] s.contains(a) && ip_of(a) == ip }
// DnsCache read access (one-line getters over its maps; get_addr lower-cases the host name)
impl DnsCache {
    pub uninterp spec fn srv_list(&self, fullname: Seq<char>) -> Option<Seq<DnsRecordIntf>>;
    pub uninterp spec fn txt_list(&self, fullname: Seq<char>) -> Option<Seq<DnsRecordIntf>>;
    pub uninterp spec fn addr_list(&self, host_lower: Seq<char>) -> Option<Seq<DnsRecordIntf>>;
    #[verifier::external_body]
    pub fn get_srv(&self, fullname: &str) -> (r: Option<&Vec<DnsRecordIntf>>)
        ensures r is Some <==> self.srv_list(fullname@) is Some, r is Some ==> r->Some_0@ == self.srv_list(fullname@)->Some_0,
    { unimplemented!() }
    #[verifier::external_body]
    pub fn get_txt(&self, fullname: &str) -> (r: Option<&Vec<DnsRecordIntf>>)
        ensures r is Some <==> self.txt_list(fullname@) is Some, r is Some ==> r->Some_0@ == self.txt_list(fullname@)->Some_0,
    { unimplemented!() }
    #[verifier::external_body]
    pub fn get_addr(&self, hostname: &str) -> (r: Option<&Vec<DnsRecordIntf>>)
        ensures r is Some <==> self.addr_list(lower(hostname@)) is Some, r is Some ==> r->Some_0@ == self.addr_list(lower(hostname@))->Some_0,
    { unimplemented!() }
    #[verifier::external_body]
    pub fn get_subtype(&self, fullname: &str) -> (r: Option<&String>) { unimplemented!() }
}
// a record that is not within one second of its expiry
pub open spec fn live(r: DnsRecordIntf, now: u64) -> bool { !(now + 1000 >= r.record.rec().expires) }
pub open spec fn live_srv(l: Option<Seq<DnsRecordIntf>>, host: Seq<char>, port: u16, now: u64) -> bool {
    l is Some && exists|i: int| 0 <= i < l->Some_0.len() && (#[trigger] l->Some_0[i]).record.srv_view() == Some((host, port)) && live(l->Some_0[i], now)
}
pub open spec fn live_txt(l: Option<Seq<DnsRecordIntf>>, text: Seq<u8>, now: u64) -> bool {
    l is Some && exists|i: int| 0 <= i < l->Some_0.len() && (#[trigger] l->Some_0[i]).record.txt_view() == Some(text) && live(l->Some_0[i], now)
}
pub open spec fn live_addr(l: Seq<DnsRecordIntf>, n: int, ip: int, now: u64) -> bool {
    exists|i: int| 0 <= i < n && (#[trigger] l[i]).record.addr_view() is Some && ip_of(l[i].record.addr_view()->Some_0) == ip && live(l[i], now)
}
// what ResolvedService::is_valid tests: type, name, host and at least one address are known
pub open spec fn svc_valid(s: ResolvedService) -> bool {
    s.ty_domain@.len() > 0 && s.fullname@.len() > 0 && s.host@.len() > 0 && !(s.addresses@ =~= Set::<ScopedIp>::empty())
}
// the instance can be resolved whichever live SRV record is picked: there is a live SRV record, and every live record of the
// list is an SRV record with a target that has a live address record
pub open spec fn has_live_addr(c: DnsCache, host: Seq<char>, now: u64) -> bool {
    c.addr_list(lower(host)) is Some && exists|k: int| 0 <= k < c.addr_list(lower(host))->Some_0.len() && live(#[trigger] c.addr_list(lower(host))->Some_0[k], now) && c.addr_list(lower(host))->Some_0[k].record.addr_view() is Some
}
pub open spec fn all_live_srv_resolvable(c: DnsCache, fullname: Seq<char>, now: u64) -> bool {
    c.srv_list(fullname) is Some
    && (exists|i: int| 0 <= i < c.srv_list(fullname)->Some_0.len() && live(#[trigger] c.srv_list(fullname)->Some_0[i], now))
    && forall|i: int| 0 <= i < c.srv_list(fullname)->Some_0.len() && live(#[trigger] c.srv_list(fullname)->Some_0[i], now) ==>
        c.srv_list(fullname)->Some_0[i].record.srv_view() is Some && c.srv_list(fullname)->Some_0[i].record.srv_view()->Some_0.0.len() > 0
        && has_live_addr(c, c.srv_list(fullname)->Some_0[i].record.srv_view()->Some_0.0, now)
}
