// ---- environment of unit `response` (trusted) ----
pub struct InstanceChange { pub ty: RRType, pub name: String }   // local struct of handle_response, hoisted
impl DnsRecordDyn {
    // DnsRecordExt accessors through the trait object
    #[verifier::external_body]
    pub fn get_type(&self) -> (r: RRType) ensures r == self.rec().entry.ty { unimplemented!() }
    #[verifier::external_body]
    pub fn get_name(&self) -> (r: &str) ensures r@ == rec_name(self.rec()) { unimplemented!() }
    // `record.any().downcast_ref::<DnsPointer>()` (dyn Any; assumed)
    #[verifier::external_body]
    pub fn as_ptr(&self) -> (r: Option<&DnsPointer>) { unimplemented!() }
}
// `msg.all_records()`: answers, then authorities, then additionals (an iterator chain in the code)
#[verifier::external_body]
pub fn vx_all_records(msg: DnsIncoming) -> (r: Vec<DnsRecordBox>)
    ensures r@ == msg.answers@ + msg.authorities@ + msg.additional@,
{ unimplemented!() }
// The closure `record_predicate` and the three `retain(&mut record_predicate)` calls: records that are already expired
// when they arrive are taken out of the message (and out of the cache, with a ServiceRemoved for a PTR).  FnMut
// closure over the cache: outside Verus; what is left of the message is a sub-list of each section.
#[verifier::external_body]
pub fn vx_drop_expired_records(msg: &mut DnsIncoming, cache: &mut DnsCache, queriers: &HashMap<String, Sender<ServiceEvent>>, now: u64)
    ensures final(cache).stored() == old(cache).stored(), final(cache).told() == old(cache).told(),
{ unimplemented!() }
// `changes.iter().filter(|c| c.ty == RRType::A || c.ty == RRType::AAAA)`
#[verifier::external_body]
pub fn vx_addr_changes(changes: &Vec<InstanceChange>) -> (r: Vec<&InstanceChange>) { unimplemented!() }
#[verifier::external_body]
pub fn vx_map_into_vec<K, V>(m: HashMap<K, V>) -> (r: Vec<(K, V)>) { unimplemented!() }
#[verifier::external_body]
pub fn vx_set_extend<K>(s: &mut HashSet<K>, v: Vec<K>) { unimplemented!() }
#[verifier::external_body]
pub fn call_service_listener(listeners_map: &HashMap<String, Sender<ServiceEvent>>, ty_domain: &str, event: ServiceEvent) { unimplemented!() }
#[verifier::external_body]
pub fn call_hostname_resolution_listener(listeners_map: &HashMap<String, (Sender<HostnameResolutionEvent>, Option<u64>)>, hostname: &str, event: HostnameResolutionEvent) { unimplemented!() }
impl DnsCache {
    // (expiry time, refresh time) of every record the cache stored or updated, in call order
    pub uninterp spec fn stored(&self) -> Seq<(u64, u64)>;
    // whether each call of add_or_update was told the packet is for us
    pub uninterp spec fn told(&self) -> Seq<bool>;
    // stores a new record (only if the packet is for us or the name is already cached), or refreshes the TTL of the one
    // it already has; may shorten other records' lives (cache-flush) and says so through `timers`
    #[verifier::external_body]
    pub fn add_or_update(&mut self, intf: &MyIntf, incoming: DnsRecordBox, timers: &mut Vec<u64>, is_for_us: bool) -> (r: Option<(&DnsRecordIntf, bool)>)
        ensures
            final(timers)@.len() >= old(timers)@.len() && final(timers)@.subrange(0, old(timers)@.len() as int) == old(timers)@,
            final(self).told() == old(self).told().push(is_for_us),
            r is Some ==> final(self).stored() == old(self).stored().push((r->Some_0.0.record.rec().expires, r->Some_0.0.record.rec().refresh)),
            r is None ==> final(self).stored() == old(self).stored(),
            final(self).verify_log() == old(self).verify_log(), final(self).removed_types() == old(self).removed_types(),
    { unimplemented!() }
    #[verifier::external_body]
    pub fn get_addresses_for_host(&self, host: &str) -> (r: HashMap<String, HashSet<ScopedIp>>) { unimplemented!() }
    #[verifier::external_body]
    pub fn get_instances_on_host(&self, host: &str) -> (r: Vec<String>) { unimplemented!() }
}
impl Zeroconf {
    // probing conflicts (closure-heavy; not under contract): touches registries, monitors and adds timers
    #[verifier::external_body]
    pub fn conflict_handler(&mut self, msg: &DnsIncoming, if_index: u32)
        ensures
            final(self).cache == old(self).cache, final(self).service_queriers == old(self).service_queriers, final(self).hostname_resolvers == old(self).hostname_resolvers,
            final(self).accept_unsolicited == old(self).accept_unsolicited, final(self).my_intfs == old(self).my_intfs,
            forall|x: u64| final(self).timers@.count(x) >= old(self).timers@.count(x),
    { unimplemented!() }
    // builds the ResolvedService of an instance from the cache (C03; closure / dyn Any code, not under contract)
    #[verifier::external_body]
    pub fn resolve_service_from_cache(&self, ty_domain: &str, fullname: &str) -> (r: Result<ResolvedService>) { unimplemented!() }
    #[verifier::external_body]
    pub fn notify_service_removal(&self, expired: HashMap<String, HashSet<String>>) { unimplemented!() }
}
// what C04 / C17 / C20 say about accepting a packet's new records; `ans` are the answers that were not already expired,
// n bounds the prefix looked at
pub open spec fn is_ptr(a: DnsRecordBox) -> bool { a.rec().entry.ty == RRType::PTR }
pub open spec fn is_ptr_for_us(a: DnsRecordBox, z: Zeroconf) -> bool {
    is_ptr(a) && exists|k: String| k@ == rec_name(a.rec()) && z.service_queriers@.contains_key(k)
}
pub open spec fn is_addr_for_us(a: DnsRecordBox, z: Zeroconf) -> bool {
    !is_ptr(a) && (a.rec().entry.ty == RRType::A || a.rec().entry.ty == RRType::AAAA) && exists|k: String| k@ == lower(rec_name(a.rec())) && z.hostname_resolvers@.contains_key(k)
}
pub open spec fn ptr_for_us(ans: Seq<DnsRecordBox>, n: int, z: Zeroconf) -> bool { exists|i: int| 0 <= i < n && is_ptr_for_us(#[trigger] ans[i], z) }
pub open spec fn addr_for_us(ans: Seq<DnsRecordBox>, n: int, z: Zeroconf) -> bool { exists|i: int| 0 <= i < n && is_addr_for_us(#[trigger] ans[i], z) }
pub open spec fn has_ptr(ans: Seq<DnsRecordBox>, n: int) -> bool { exists|i: int| 0 <= i < n && is_ptr(#[trigger] ans[i]) }
// `map.contains_key(name)` with a &str key on a HashMap<String, _> (Borrow<str>)
#[verifier::external_body]
pub fn vx_contains_str<V>(m: &HashMap<String, V>, k: &str) -> (r: bool)
    ensures r == (exists|key: String| key@ == k@ && m@.contains_key(key)),
{ unimplemented!() }
impl DnsCache {
    #[verifier::external_body]
    pub fn all_ptr(&self) -> (r: &HashMap<String, Vec<DnsRecordIntf>>) { unimplemented!() }
}
impl ResolvedService {
    #[verifier::external_body]
    pub fn is_valid(&self) -> (r: bool) { unimplemented!() }
}
// `records.iter().filter(|r| !r.record.expires_soon(now))`
#[verifier::external_body]
pub fn vx_not_expiring<'a>(records: &'a Vec<DnsRecordIntf>, now: u64) -> (r: Vec<&'a DnsRecordIntf>) { unimplemented!() }
// &str lookups / removals on a HashSet<String> (Borrow<str>)
#[verifier::external_body]
pub fn vx_set_contains_str(s: &HashSet<String>, k: &str) -> (r: bool)
    ensures r == (exists|key: String| key@ == k@ && s@.contains(key)),
{ unimplemented!() }
#[verifier::external_body]
pub fn vx_set_remove_str(s: &mut HashSet<String>, k: &str) -> (r: bool)
    ensures
        forall|key: String| #[trigger] final(s)@.contains(key) ==> old(s)@.contains(key) && key@ != k@,
        forall|key: String| #[trigger] old(s)@.contains(key) && key@ != k@ ==> final(s)@.contains(key),
{ unimplemented!() }
// `map.entry(k).or_insert_with(HashSet::new).insert(v)`
#[verifier::external_body]
pub fn vx_map_set_insert(m: &mut HashMap<String, HashSet<String>>, k: String, v: String) { unimplemented!() }
