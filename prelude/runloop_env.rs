// ---- environment of unit `runloop` (trusted): the OS side of Zeroconf::run ----
// `self.poller.registry().register(sock, mio::Token(KEY), mio::Interest::READABLE)`: some io result
pub struct IoError {}
#[verifier::external_body]
pub fn vx_io_result() -> (r: core::result::Result<(), IoError>) { unimplemented!() }
#[verifier::external_body] pub struct Events { x: u8 }
impl Events {
    #[verifier::external_body]
    pub fn with_capacity(n: usize) -> (r: Self) { unimplemented!() }
    #[verifier::external_body]
    pub fn clear(&mut self) { unimplemented!() }
}
impl Poll {
    // blocks until a socket is readable or `timeout` has passed (None: no time limit)
    #[verifier::external_body]
    // (mio takes &mut self; the poller has no state a contract here depends on)
    pub fn poll(&self, events: &mut Events, timeout: Option<Duration>) -> (r: core::result::Result<(), IoError>) { unimplemented!() }
}
impl Duration {
    #[verifier::external_body]
    pub fn from_millis(ms: u64) -> (r: Duration) ensures r.millis() == ms as u128 { unimplemented!() }
}
pub struct TryRecvError {}
impl<T> Receiver<T> {
    #[verifier::external_body]
    pub fn try_recv(&self) -> (r: core::result::Result<T, TryRecvError>) { unimplemented!() }
}
impl Receiver<Command> {
    // the receiving end of the channel whose sending end is ServiceDaemon::send_cmd (precondition cmd_ok there)
    #[verifier::external_body]
    pub fn try_recv_cmd(&self) -> (r: core::result::Result<Command, TryRecvError>)
        ensures r is Ok ==> cmd_ok(r->Ok_0),
    { unimplemented!() }
}
// `map.clone().into_iter().filter(|(k, v)| P).map(|(k, _)| k)`: the keys of the entries satisfying P, each once
#[verifier::external_body]
pub fn vx_filter_keys<V, F: Fn(&String, &V) -> bool>(m: &HashMap<String, V>, f: F) -> (r: Vec<String>)
    requires forall|k: &String, v: &V| #[trigger] f.requires((k, v)),
    ensures
        r@.no_duplicates(),
        forall|i: int| 0 <= i < r@.len() ==> m@.contains_key(#[trigger] r@[i]) && f.ensures((&r@[i], &m@[r@[i]]), true),
        // an entry that is not listed was looked at and rejected
        forall|k: String| m@.contains_key(k) && !(#[trigger] r@.contains(k)) ==> f.ensures((&k, &m@[k]), false),
{ unimplemented!() }
// proved in unit events (same two clauses): the event goes to the resolver registered under the lower-cased name
#[verifier::external_body]
pub fn call_hostname_resolution_listener(listeners_map: &HashMap<String, (Sender<HostnameResolutionEvent>, Option<u64>)>, hostname: &str, event: HostnameResolutionEvent, vx_hlog: &mut Ghost<Seq<Sent<HostnameResolutionEvent>>>)
    ensures
        m_has(listeners_map@, lower(hostname@)) ==> logged_one(old(vx_hlog)@, final(vx_hlog)@, listeners_map@[key_string(lower(hostname@))].0, event),
        !m_has(listeners_map@, lower(hostname@)) ==> final(vx_hlog)@ == old(vx_hlog)@,
{ unimplemented!() }
#[verifier::external_body]
pub fn vx_count_inc(c: i64) -> (r: i64) { unimplemented!() }   // `c += 1` on a per-iteration statistics counter (no overflow assumed)
#[verifier::external_body] pub struct ScopedIpX { x: u8 }
#[verifier::external_body]
pub fn vx_map_into_vec<K, V>(m: HashMap<K, V>) -> (r: Vec<(K, V)>) { unimplemented!() }
#[verifier::external_body]
pub fn vx_vec_into_set<K>(v: Vec<K>) -> (r: HashSet<K>) { unimplemented!() }
impl DnsCache {
    // (names, address) pairs whose refresh is due; the names are the resolver's host name, which
    // exec_command_resolve_hostname already put on the wire
    #[verifier::external_body]
    // (real signature: &mut self -> HashSet<(String, ScopedIp)>; the refresh marks it updates are not visible here, and
    // a set iterated by reference is presented as a borrowed list)
    pub fn refresh_due_hostname_resolutions(&self, hostname: &str) -> (r: &Vec<(String, ScopedIp)>)
        ensures forall|i: int| 0 <= i < r@.len() ==> max_label((#[trigger] r@[i]).0@) < 64,
    { unimplemented!() }
    // proved in unit cachewalk; here: a named result
    pub uninterp spec fn evicted_services(&self, now: u64) -> HashMap<String, HashSet<String>>;
    #[verifier::external_body]
    pub fn evict_expired_services(&mut self, now: u64) -> (r: HashMap<String, HashSet<String>>) ensures r == old(self).evicted_services(now) { unimplemented!() }
    #[verifier::external_body]
    pub fn evict_expired_addr(&mut self, now: u64) -> (r: HashMap<String, HashSet<ScopedIp>>) { unimplemented!() }
    #[verifier::external_body]
    pub fn get_instances_on_host(&self, host: &str) -> (r: Vec<String>) { unimplemented!() }
}
impl ScopedIp {
    #[verifier::external_body]
    pub fn to_ip_addr(&self) -> (r: IpAddr) { unimplemented!() }
}
#[verifier::external_body]
pub fn ip_address_rr_type(address: &IpAddr) -> (r: RRType) { unimplemented!() }
impl Zeroconf {
    // socket reads -> handle_response / handle_query (unit query): assumed to keep the queue acceptable
    #[verifier::external_body]
    pub fn handle_poller_events(&mut self, events: &Events)
        ensures queue_ok(*old(self)) ==> queue_ok(*final(self)), cover_kept(*old(self), *final(self)), final(self).ip_check_interval == old(self).ip_check_interval,
            final(self).hostname_resolvers == old(self).hostname_resolvers,   // handle_response: proved (unit events, searches_untouched); handle_query / handle_read: by inspection
    { unimplemented!() }
    // proved in unit events (same three clauses)
    #[verifier::external_body]
    pub fn notify_service_removal(&self, expired: HashMap<String, HashSet<String>>, vx_log: &mut Ghost<Seq<Sent<ServiceEvent>>>)
        ensures
            extends(old(vx_log)@, final(vx_log)@),
            forall|k: int| old(vx_log)@.len() <= k < final(vx_log)@.len() ==> removal_justified(self.service_queriers@, expired@, #[trigger] final(vx_log)@[k]),
            forall|ty: String, inst: String| self.service_queriers@.contains_key(ty) && expired@.contains_key(ty) && #[trigger] expired@[ty]@.contains(inst) ==> handed_over(final(vx_log)@, old(vx_log)@.len() as int, self.service_queriers@[ty], ServiceEvent::ServiceRemoved(ty, inst)),
    { unimplemented!() }
    #[verifier::external_body]
    pub fn resolve_updated_instances(&mut self, updated_instances: &HashSet<String>, vx_log: &mut Ghost<Seq<Sent<ServiceEvent>>>)
        ensures extends(old(vx_log)@, final(vx_log)@), queue_ok(*old(self)) ==> queue_ok(*final(self)), cover_kept(*old(self), *final(self)), final(self).ip_check_interval == old(self).ip_check_interval, final(self).hostname_resolvers == old(self).hostname_resolvers,
    { unimplemented!() }
}
// the clock as the run loop sees it: every read is some time (not frozen across iterations as in the handler units)
#[verifier::external_body]
pub fn vx_now() -> (r: u64) ensures time_ok(r) { unimplemented!() }
