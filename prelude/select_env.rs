// ---- environment of unit `select` (trusted): if_addrs::Interface seen through the fields / methods the
// selection code reads; IpAddr transparent (two variants) ----
#[verifier::external_body] pub struct IfAddr { x: u8 }
#[verifier::external_body] pub struct DnsRegistry { x: u8 }
#[verifier::external_body] pub struct ServiceInfo { x: u8 }
#[verifier::external_body] pub struct PktInfoUdpSocket { x: u8 }
#[verifier::external_body] pub struct SocketAddr { x: u8 }
#[verifier::external_type_specification]
pub struct ExIpAddr(IpAddr);
#[verifier::external_type_specification]
#[verifier::external_body]
pub struct ExIpv4Addr(std::net::Ipv4Addr);
#[verifier::external_type_specification]
#[verifier::external_body]
pub struct ExIpv6Addr(std::net::Ipv6Addr);
pub assume_specification [IpAddr::is_ipv4] (a: &IpAddr) -> (r: bool)
    ensures r == (*a is V4);
pub assume_specification [IpAddr::is_ipv6] (a: &IpAddr) -> (r: bool)
    ensures r == (*a is V6);
// `&IpAddr == &IpAddr` (blanket impl for references; derived PartialEq of a std type): shim, same body
#[verifier::external_body]
pub fn vx_ipaddr_ref_eq(a: &IpAddr, b: &IpAddr) -> (r: bool)
    ensures r == (*a == *b),
{ a == b }
#[verifier::external_body]
pub fn vx_opt_u32_eq(a: Option<u32>, b: Option<u32>) -> (r: bool)
    ensures r == (a == b),
{ a == b }

pub struct Interface { pub name: String, pub addr: IfAddr, pub index: Option<u32> }
impl Interface {
    pub uninterp spec fn ip_spec(&self) -> IpAddr;
    pub uninterp spec fn loopback(&self) -> bool;
    #[verifier::external_body]
    pub fn ip(&self) -> (r: IpAddr)
        ensures r == self.ip_spec(),
    { unimplemented!() }
    #[verifier::external_body]
    pub fn is_loopback(&self) -> (r: bool)
        ensures r == self.loopback(),
    { unimplemented!() }
}
impl Clone for Interface {
    #[verifier::external_body]
    fn clone(&self) -> (r: Self)
        ensures r == *self,
    { unimplemented!() }
}
impl IfPredicate {
    pub uninterp spec fn holds(&self, intf: Interface) -> bool;
    #[verifier::external_body]
    pub fn matches(&self, intf: &Interface) -> (r: bool)
        ensures r == self.holds(*intf),
    { unimplemented!() }
}

// ---- del_interface_addr's environment ----
impl IfAddr {
    pub uninterp spec fn ip_spec(&self) -> IpAddr;
    #[verifier::external_body]
    pub fn ip(&self) -> (r: IpAddr) ensures r == self.ip_spec() { unimplemented!() }
}
impl MyIntf {
    // whether the interface still has an address of that family (real: iterator find over `addrs`)
    pub open spec fn has_v4(&self) -> bool { exists|a: IfAddr| self.addrs@.contains(a) && a.ip_spec() is V4 }
    pub open spec fn has_v6(&self) -> bool { exists|a: IfAddr| self.addrs@.contains(a) && a.ip_spec() is V6 }
    #[verifier::external_body]
    pub fn next_ifaddr_v4(&self) -> (r: Option<&IfAddr>) ensures r is Some <==> self.has_v4() { unimplemented!() }
    #[verifier::external_body]
    pub fn next_ifaddr_v6(&self) -> (r: Option<&IfAddr>) ensures r is Some <==> self.has_v6() { unimplemented!() }
}
pub struct IoError {}
impl PktInfoUdpSocket {
    #[verifier::external_body]
    pub fn leave_multicast_v4(&self, group: &std::net::Ipv4Addr, addr: &std::net::Ipv4Addr) -> (r: core::result::Result<(), IoError>) { unimplemented!() }
    #[verifier::external_body]
    pub fn leave_multicast_v6(&self, group: &std::net::Ipv6Addr, if_index: u32) -> (r: core::result::Result<(), IoError>) { unimplemented!() }
}
#[verifier::external_body]
pub fn vx_group_v4() -> (r: std::net::Ipv4Addr) { unimplemented!() }
#[verifier::external_body]
pub fn vx_group_v6() -> (r: std::net::Ipv6Addr) { unimplemented!() }
#[derive(Clone, Copy, PartialEq, Eq, Structural)]
pub struct IpType(pub u8);
impl IpType {
    pub const V4: IpType = IpType(0b01);
    pub const V6: IpType = IpType(0b10);
    pub const BOTH: IpType = IpType(0b11);
}
impl DnsCache {
    // which address families of which interface the cache was told to forget, in call order
    pub uninterp spec fn forgotten(&self) -> Seq<(u32, IpType)>;
    #[verifier::external_body]
    pub fn remove_addrs_on_disabled_intf(&mut self, disabled_if_index: u32, ip_type: IpType)
        ensures final(self).forgotten() == old(self).forgotten().push((disabled_if_index, ip_type)),
    { unimplemented!() }
}
impl Zeroconf {
    #[verifier::external_body]
    pub fn notify_monitors(&mut self, event: DaemonEvent)
        ensures *final(self) == (Zeroconf { monitors: final(self).monitors, ..*old(self) }),
    { unimplemented!() }
    #[verifier::external_body]
    pub fn del_addr_in_my_services(&mut self, addr: &IpAddr)
        ensures *final(self) == (Zeroconf { my_services: final(self).my_services, ..*old(self) }),
    { unimplemented!() }
}
pub open spec fn idx_of(intf: Interface) -> u32 { match intf.index { Some(i) => i, None => 0u32 } }
// the interface is known and has that address
pub open spec fn has_addr(z: Zeroconf, intf: Interface) -> bool {
    z.my_intfs@.contains_key(idx_of(intf)) && z.my_intfs@[idx_of(intf)].addrs@.contains(intf.addr)
}
pub open spec fn last_addr(z: Zeroconf, intf: Interface) -> bool {
    z.my_intfs@[idx_of(intf)].addrs@.remove(intf.addr) =~= Set::<IfAddr>::empty()
}
