// ---- environment of unit `select` (trusted): if_addrs::Interface seen through the fields / methods the
// selection code reads; IpAddr transparent (two variants) ----
#[verifier::external_body] pub struct IfAddr { x: u8 }
#[verifier::external_body] pub struct DnsRegistry { x: u8 }
#[verifier::external_body] pub struct ServiceInfo { x: u8 }
#[verifier::external_body] pub struct PktInfoUdpSocket { x: u8 }
#[verifier::external_body] pub struct SocketAddr { x: u8 }
#[verifier::external_type_specification]
pub struct ExIpAddr(IpAddr);
#[verifier::external_type_specification]
#[verifier::external_body]
pub struct ExIpv4Addr(std::net::Ipv4Addr);
#[verifier::external_type_specification]
#[verifier::external_body]
pub struct ExIpv6Addr(std::net::Ipv6Addr);
pub assume_specification [IpAddr::is_ipv4] (a: &IpAddr) -> (r: bool)
    ensures r == (*a is V4);
pub assume_specification [IpAddr::is_ipv6] (a: &IpAddr) -> (r: bool)
    ensures r == (*a is V6);
// `&IpAddr == &IpAddr` (blanket impl for references; derived PartialEq of a std type): shim, same body
#[verifier::external_body]
pub fn vx_ipaddr_ref_eq(a: &IpAddr, b: &IpAddr) -> (r: bool)
    ensures r == (*a == *b),
{ a == b }
#[verifier::external_body]
pub fn vx_opt_u32_eq(a: Option<u32>, b: Option<u32>) -> (r: bool)
    ensures r == (a == b),
{ a == b }

pub struct Interface { pub name: String, pub addr: IfAddr, pub index: Option<u32> }
impl Interface {
    pub uninterp spec fn ip_spec(&self) -> IpAddr;
    pub uninterp spec fn loopback(&self) -> bool;
    #[verifier::external_body]
    pub fn ip(&self) -> (r: IpAddr)
        ensures r == self.ip_spec(),
    { unimplemented!() }
    #[verifier::external_body]
    pub fn is_loopback(&self) -> (r: bool)
        ensures r == self.loopback(),
    { unimplemented!() }
}
impl Clone for Interface {
    #[verifier::external_body]
    fn clone(&self) -> (r: Self)
        ensures r == *self,
    { unimplemented!() }
}
impl IfPredicate {
    pub uninterp spec fn holds(&self, intf: Interface) -> bool;
    #[verifier::external_body]
    pub fn matches(&self, intf: &Interface) -> (r: bool)
        ensures r == self.holds(*intf),
    { unimplemented!() }
}
