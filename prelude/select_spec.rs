// ---- what the statement says a selection kind matches, and "last match wins, default enabled" ----
pub open spec fn kind_matches(k: IfKind, intf: Interface) -> bool {
    match k {
        IfKind::All => true,
        IfKind::IPv4 => intf.ip_spec() is V4,
        IfKind::IPv6 => intf.ip_spec() is V6,
        IfKind::Name(n) => n@ == intf.name@,
        IfKind::Addr(a) => a == intf.ip_spec(),
        IfKind::LoopbackV4 => intf.loopback() && intf.ip_spec() is V4,
        IfKind::LoopbackV6 => intf.loopback() && intf.ip_spec() is V6,
        IfKind::IndexV4(i) => intf.index == Some(i) && intf.ip_spec() is V4,
        IfKind::IndexV6(i) => intf.index == Some(i) && intf.ip_spec() is V6,
        IfKind::Predicate(p) => p.holds(intf),
    }
}
// the verdict of the first n selections (in call order) on one interface
pub open spec fn selected_by(sels: Seq<IfSelection>, n: int, intf: Interface) -> bool
    decreases n
{
    if n <= 0 { true }
    else if kind_matches(sels[n - 1].if_kind, intf) { sels[n - 1].selected }
    else { selected_by(sels, n - 1, intf) }
}
// the system's interface list at the moment of the call (one call per handler: frozen like the clock)
pub uninterp spec fn sys_interfaces(with_loopback: bool, with_apple_p2p: bool) -> Seq<Interface>;
#[verifier::external_body]
pub fn my_ip_interfaces_inner(with_loopback: bool, with_apple_p2p: bool) -> (r: Vec<Interface>)
    ensures r@ == sys_interfaces(with_loopback, with_apple_p2p),
{ unimplemented!() }
// `interfaces.iter().find(closure)`: not extractable.  Turns IfKind::Addr(ip) into the index form of the
// interface that owns it, every other kind is returned unchanged.
pub uninterp spec fn addr_to_index(k: IfKind, interfaces: Seq<Interface>) -> IfKind;
#[verifier::external_body]
pub fn resolve_addr_to_index(if_kind: IfKind, interfaces: &[Interface]) -> (r: IfKind)
    ensures r == addr_to_index(if_kind, interfaces@),
{ unimplemented!() }
