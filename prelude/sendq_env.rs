// ---- environment of unit `sendq` (trusted) ----
impl DnsCache {
    // proved in unit cachewalk (exactly the held records of that name and type that are shared and have more than half
    // of their life left, in order); here: what every listed record satisfies, and the list as a named read
    pub uninterp spec fn known_answers(&self, name: Seq<char>, qtype: RRType, now: u64) -> Seq<DnsRecordIntf>;
    #[verifier::external_body]
    pub fn get_known_answers<'a>(&'a self, name: &str, qtype: RRType, now: u64) -> (r: Vec<&'a DnsRecordIntf>)
        ensures
            r@.len() == self.known_answers(name@, qtype, now).len(),
            forall|i: int| 0 <= i < r@.len() ==> *(#[trigger] r@[i]) == self.known_answers(name@, qtype, now)[i],
            forall|i: int| 0 <= i < r@.len() ==> sane((#[trigger] r@[i]).record.rec()) && !(now as int > exp_at(r@[i].record.rec().created, r@[i].record.rec().ttl, 50)),
    { unimplemented!() }
}
// `record.record.clone()` (Clone for Box<dyn DnsRecordExt> = clone_box): an equal record
#[verifier::external_body]
pub fn vx_clone_record(r: &DnsRecordBox) -> (c: DnsRecordBox)
    ensures c.rec() == r.rec(), c.shape() == r.shape(),
{ unimplemented!() }
impl DnsRecordDyn {
    // the six impls are `&mut self.record`
    #[verifier::external_body]
    pub fn get_record_mut(&mut self) -> (r: &mut DnsRecord)
        ensures *r == old(self).rec(), final(self).rec() == *final(r),
    { unimplemented!() }
}
// R20: send_dns_outgoing with a ghost log of what was handed to which interface / socket
pub ghost struct PacketSent { pub out: DnsOutgoing, pub intf: MyIntf, pub sock: PktInfoUdpSocket }
#[verifier::external_body]
pub fn vx_send_dns_outgoing(out: &DnsOutgoing, my_intf: &MyIntf, sock: &PktInfoUdpSocket, port: u16, source: Option<&IfAddr>, unicast_dest: Option<SocketAddr>, log: &mut Ghost<Seq<PacketSent>>) -> (r: MyResult<Vec<Vec<u8>>>)
    ensures final(log)@ == old(log)@.push(PacketSent { out: *out, intf: *my_intf, sock: *sock }),
{ unimplemented!() }
impl Zeroconf {
    #[verifier::external_body]
    pub fn send_cmd_to_self(&self, cmd: Command) -> (r: Result<()>) { unimplemented!() }
}
// the remaining-life copy of a known answer that goes into the query (DnsRecord::update_ttl, unit lifetime)
pub open spec fn aged(orig: DnsRecord, copy: DnsRecord, now: u64) -> bool {
    copy.entry == orig.entry && copy.created == orig.created && copy.expires == orig.expires
    && copy.ttl as int == orig.ttl as int - (if now > orig.created { (now - orig.created) as int / 1000 } else { 0 })
}
// answers[lo..] are, in order, the aged copies of `ka`
pub open spec fn answers_from(ans: Seq<(DnsRecordBox, u64)>, lo: int, ka: Seq<DnsRecordIntf>, n: int, now: u64) -> bool {
    ans.len() >= lo + n && forall|j: int| 0 <= j < n ==> aged((#[trigger] ka[j]).record.rec(), ans[lo + j].0.rec(), now)
}
// where the known answers of question i start in the answer section
pub open spec fn ka_start(c: DnsCache, qs: Seq<(&str, RRType)>, i: int, now: u64) -> int
    decreases i,
{
    if i <= 0 { 0 } else { ka_start(c, qs, i - 1, now) + c.known_answers(qs[i - 1].0@, qs[i - 1].1, now).len() }
}
// the query packet for `qs`: the questions as given, and in the answer section, question by question, the known answers
// of each with their remaining life as TTL
pub open spec fn is_query_for(out: DnsOutgoing, c: DnsCache, qs: Seq<(&str, RRType)>, n: int, now: u64) -> bool {
    out.flags == FLAGS_QR_QUERY && out.multicast
    && out.questions@.len() == n
    && (forall|i: int| 0 <= i < n ==> (#[trigger] out.questions@[i]).entry.name@ == qs[i].0@ && out.questions@[i].entry.ty == qs[i].1)
    && out.answers@.len() == ka_start(c, qs, n, now)
    && (forall|i: int| 0 <= i < n ==> answers_from(out.answers@, #[trigger] ka_start(c, qs, i, now), c.known_answers(qs[i].0@, qs[i].1, now), c.known_answers(qs[i].0@, qs[i].1, now).len() as int, now))
    && out.authorities@.len() == 0 && out.additionals@.len() == 0
}
pub open spec fn handed_to(l: Seq<PacketSent>, n0: int, out: DnsOutgoing, intf: MyIntf, sock: PktInfoUdpSocket) -> bool {
    exists|k: int| n0 <= k < l.len() && (#[trigger] l[k]).out == out && l[k].intf == intf && l[k].sock == sock
}
pub open spec fn reached(l: Seq<PacketSent>, n0: int, intf: MyIntf, sock: PktInfoUdpSocket) -> bool {
    exists|k: int| n0 <= k < l.len() && (#[trigger] l[k]).intf == intf && l[k].sock == sock
}
pub proof fn lemma_handed_push(l: Seq<PacketSent>, x: PacketSent, n0: int)
    requires 0 <= n0 <= l.len(),
    ensures
        forall|out: DnsOutgoing, intf: MyIntf, sock: PktInfoUdpSocket| handed_to(l, n0, out, intf, sock) ==> #[trigger] handed_to(l.push(x), n0, out, intf, sock),
        handed_to(l.push(x), n0, x.out, x.intf, x.sock),
{
    assert forall|out: DnsOutgoing, intf: MyIntf, sock: PktInfoUdpSocket| handed_to(l, n0, out, intf, sock) implies #[trigger] handed_to(l.push(x), n0, out, intf, sock) by {
        let k = choose|k: int| n0 <= k < l.len() && (#[trigger] l[k]).out == out && l[k].intf == intf && l[k].sock == sock;
        assert(l.push(x)[k] == l[k]);
    }
    assert(l.push(x)[l.len() as int] == x);
}
// the same record with the cache-flush bit off
pub open spec fn flush_cleared(a: DnsRecord, b: DnsRecord) -> bool {
    b == (DnsRecord { entry: DnsEntry { cache_flush: false, ..a.entry }, ..a })
}
// `for x in &mut vec` / `vec.iter_mut()`: the elements in order; each element's final value is what was written through its
// item borrow
#[verifier::external_body]
pub fn vx_vec_iter_mut<'a, T>(v: &'a mut Vec<T>) -> (r: core::slice::IterMut<'a, T>)
    ensures
        vstd::std_specs::iter::IteratorSpec::obeys_prophetic_iter_laws(&r), vstd::std_specs::iter::IteratorSpec::decrease(&r) is Some,
        vstd::std_specs::iter::IteratorSpec::remaining(&r).len() == old(v)@.len(),
        forall|i: int| 0 <= i < old(v)@.len() ==> *(#[trigger] vstd::std_specs::iter::IteratorSpec::remaining(&r)[i]) == old(v)@[i],
        final(v)@.len() == old(v)@.len(),
        forall|i: int| 0 <= i < old(v)@.len() ==> #[trigger] final(v)@[i] == *final(vstd::std_specs::iter::IteratorSpec::remaining(&r)[i]),
{ unimplemented!() }
