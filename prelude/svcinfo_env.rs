// ---- environment of unit `svcinfo` (trusted) ----
#[verifier::external_type_specification]
#[verifier::external_body]
pub struct ExIpAddr(IpAddr);
#[verifier::external_body] pub struct IfPredicate { x: u8 }
pub trait AsIpAddrs {
    fn as_ip_addrs(&self) -> Result<HashSet<IpAddr>>;
}
pub trait IntoTxtProperties {
    fn into_txt_properties(self) -> TxtProperties;
}
// string helpers of src/service_info.rs that are not under proof (str::split / char iterators)
#[verifier::external_body]
pub fn split_sub_domain(domain: &str) -> (r: (&str, Option<&str>)) { unimplemented!() }
#[verifier::external_body]
pub fn escape_instance_name(name: &str) -> (r: String) { unimplemented!() }
#[verifier::external_body]
pub fn normalize_hostname(hostname: String) -> (r: String) { unimplemented!() }
// `sub_domain.map(str::to_string)`
#[verifier::external_body]
pub fn vx_opt_str_to_string(o: Option<&str>) -> (r: Option<String>)
    ensures o is None <==> r is None, o is Some ==> r->Some_0@ == o->Some_0@,
{ o.map(str::to_string) }
#[verifier::external_body]
pub fn vx_str_len(s: &str) -> (r: usize)
    ensures r == utf8(s@).len(), r <= isize::MAX,
{ s.len() }
// `o.map_or(0, |v| v.len() + 1)` (Option::map_or has no vstd spec); shim with that body
#[verifier::external_body]
pub fn vx_map_or_len_plus_one(o: Option<&[u8]>) -> (r: usize)
    requires o is Some ==> o->Some_0@.len() <= isize::MAX,
    ensures r == (match o { Some(v) => v@.len() + 1, None => 0 }),
{ o.map_or(0, |v| v.len() + 1) }
#[verifier::external_body]
pub fn vx_str_is_empty(s: &str) -> (r: bool)
    ensures r == (utf8(s@).len() == 0),
{ s.is_empty() }
// `key.contains('=')`: byte 0x3D occurs in the UTF-8 encoding exactly when the char '=' occurs
#[verifier::external_body]
pub fn vx_contains_eq_sign(s: &str) -> (r: bool)
    ensures r == (first_eq(utf8(s@)) < utf8(s@).len()),
{ s.contains('=') }
impl TxtProperties {
    // real body: `self.properties.iter()` behind `impl Iterator`
    #[verifier::external_body]
    pub fn iter(&self) -> (r: core::slice::Iter<'_, TxtProperty>)
        ensures
            r.obeys_prophetic_iter_laws(), r.decrease() is Some,
            r.remaining().len() == self.properties@.len(),
            forall|i: int| 0 <= i < self.properties@.len() ==> *(#[trigger] r.remaining()[i]) == self.properties@[i],
    { unimplemented!() }
}
impl TxtProperty {
    // real body: `self.val.as_deref()`
    #[verifier::external_body]
    pub fn val(&self) -> (r: Option<&[u8]>)
        ensures self.val is None <==> r is None, r is Some ==> r->Some_0@ == self.val->Some_0@ && r->Some_0@.len() <= isize::MAX,
    { unimplemented!() }
    // real body: `self.val.as_ref().map_or("", |v| std::str::from_utf8(&v[..]).unwrap_or_default())`: the value as text if it
    // is valid UTF-8, the empty string otherwise (and for a key without value)
    #[verifier::external_body]
    pub fn val_str(&self) -> (r: &str)
        ensures r@.len() == 0 || (self.val is Some && utf8(r@) == self.val->Some_0@),
    { unimplemented!() }
}
