// ---- environment of unit `tiebreak` (trusted) ----
#[verifier::external_type_specification]
#[verifier::external_body]
pub struct ExIpAddr(IpAddr);
pub struct InterfaceId { pub name: String, pub index: u32 }
#[verifier::external_body]
pub struct DnsRecordDyn { x: core::marker::PhantomData<u8> }
impl DnsRecordDyn {
    // `other.any().downcast_ref::<DnsSrv>()`: the record seen as an SRV record, if it is one (dyn Any; assumed)
    pub uninterp spec fn srv(&self) -> Option<DnsSrv>;
    #[verifier::external_body]
    pub fn as_srv(&self) -> (r: Option<&DnsSrv>)
        ensures self.srv() is None <==> r is None, r is Some ==> *r->Some_0 == self.srv()->Some_0,
    { unimplemented!() }
    pub uninterp spec fn class_spec(&self) -> u16;
    pub uninterp spec fn type_spec(&self) -> RRType;
    #[verifier::external_body]
    pub fn get_class(&self) -> (r: u16) ensures r == self.class_spec() { unimplemented!() }
    #[verifier::external_body]
    pub fn get_type(&self) -> (r: RRType) ensures r == self.type_spec() { unimplemented!() }
}
pub type DnsRecordBox = Box<DnsRecordDyn>;

// core::cmp::Ordering as a three-valued spec type (vstd specifies the type itself)
pub open spec fn ord_int(a: int, b: int) -> core::cmp::Ordering {
    if a < b { core::cmp::Ordering::Less } else if a == b { core::cmp::Ordering::Equal } else { core::cmp::Ordering::Greater }
}
pub open spec fn rev(o: core::cmp::Ordering) -> core::cmp::Ordering {
    match o { core::cmp::Ordering::Less => core::cmp::Ordering::Greater, core::cmp::Ordering::Equal => core::cmp::Ordering::Equal, core::cmp::Ordering::Greater => core::cmp::Ordering::Less }
}
// `a.to_be_bytes().cmp(&b.to_be_bytes())`: byte-wise comparison of the big-endian (wire) form = numeric order
// (Kani: check_be_bytes_cmp, all 2^32 pairs)
#[verifier::external_body]
pub fn vx_be_cmp_u16(a: u16, b: u16) -> (r: core::cmp::Ordering)
    ensures r == ord_int(a as int, b as int),
{ a.to_be_bytes().cmp(&b.to_be_bytes()) }
#[verifier::external_body]
pub fn vx_u16_cmp(a: u16, b: u16) -> (r: core::cmp::Ordering)
    ensures r == ord_int(a as int, b as int),
{ unimplemented!() } // real expression: a.cmp(&b)
// derived Ord of the field-less enum RRType: by discriminant (Kani: check_rrtype_cmp, all pairs)
pub uninterp spec fn rrtype_code(t: RRType) -> int;
#[verifier::external_body]
pub fn vx_rrtype_cmp(a: RRType, b: RRType) -> (r: core::cmp::Ordering)
    ensures r == ord_int(rrtype_code(a), rrtype_code(b)),
{ unimplemented!() } // real expression: a.cmp(&b)
// String::cmp: byte-wise lexicographic order; a total order on the contents (std)
pub uninterp spec fn str_ord(a: Seq<char>, b: Seq<char>) -> core::cmp::Ordering;
#[verifier::external_body]
pub broadcast proof fn axiom_str_ord(a: Seq<char>, b: Seq<char>)
    ensures #[trigger] str_ord(a, b) == rev(str_ord(b, a)), (str_ord(a, b) == core::cmp::Ordering::Equal) == (a == b),
{}
#[verifier::external_body]
pub fn vx_string_cmp(a: &String, b: &String) -> (r: core::cmp::Ordering)
    ensures r == str_ord(a@, b@),
{ a.cmp(b) }
#[verifier::external_body]
pub fn vx_usize_cmp(a: usize, b: usize) -> (r: core::cmp::Ordering)
    ensures r == ord_int(a as int, b as int),
{ unimplemented!() } // real expression: a.cmp(&b)
#[verifier::external_body]
pub fn vx_ord_eq(a: core::cmp::Ordering, b: core::cmp::Ordering) -> (r: bool)
    ensures r == (a == b),
{ a == b }
#[verifier::external_body]
pub fn vx_min_usize(a: usize, b: usize) -> (r: usize)
    ensures r == (if a <= b { a } else { b }),
{ a.min(b) }
#[verifier::external_body]
pub fn vx_any<T>() -> (r: T) { unimplemented!() }

// RFC 6762 8.2: priority, weight, port as big-endian numbers, then the target
pub open spec fn srv_order(a: DnsSrv, b: DnsSrv) -> core::cmp::Ordering {
    if a.priority != b.priority { ord_int(a.priority as int, b.priority as int) }
    else if a.weight != b.weight { ord_int(a.weight as int, b.weight as int) }
    else if a.port != b.port { ord_int(a.port as int, b.port as int) }
    else { str_ord(a.host@, b.host@) }
}
#[verifier::external_body] pub struct DnsIncoming { x: u8 }
#[verifier::external_body]
#[verifier::reject_recursive_types(K)]
pub struct HashSet<K> { x: core::marker::PhantomData<K> }
