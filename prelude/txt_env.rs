// ---- environment of unit `txt` (trusted) ----
// Error type of String::from_utf8 stays opaque
#[verifier::external_type_specification]
#[verifier::external_body]
pub struct ExFromUtf8Error(std::string::FromUtf8Error);
pub uninterp spec fn blen(s: Seq<char>) -> nat;
// UTF-8 encoding of a string view (bytes); `String::from_utf8(v) = Ok(s)` means s encodes to exactly v
pub uninterp spec fn utf8(s: Seq<char>) -> Seq<u8>;
pub assume_specification [String::from_utf8] (v: Vec<u8>) -> (r: core::result::Result<String, std::string::FromUtf8Error>)
    ensures
        r is Ok ==> utf8(r->Ok_0@) == v@,
        valid_utf8(v@) ==> r is Ok;
pub assume_specification<T: Clone> [<[T]>::to_vec] (s: &[T]) -> (r: Vec<T>)
    ensures r@ == s@;

pub open spec fn valid_utf8(b: Seq<u8>) -> bool { exists|s: Seq<char>| utf8(s) == b }
// UTF-8 encoding is injective
#[verifier::external_body]
pub broadcast proof fn axiom_utf8_injective(a: Seq<char>, b: Seq<char>)
    ensures #![trigger utf8(a), utf8(b)] utf8(a) == utf8(b) ==> a == b,
{}
pub open spec fn first_eq(s: Seq<u8>) -> int
    decreases s.len()
{
    if s.len() == 0 { 0 } else if s[0] == 61u8 { 0 } else { 1 + first_eq(s.subrange(1, s.len() as int)) }
}
pub proof fn lemma_first_eq_bounds(s: Seq<u8>)
    ensures 0 <= first_eq(s) <= s.len()
    decreases s.len()
{
    if s.len() > 0 && s[0] != 61u8 { lemma_first_eq_bounds(s.subrange(1, s.len() as int)); }
}
// `kv_bytes.iter().position(|&x| x == b'=').map_or_else(|| (kv_bytes.to_vec(), None),
//      |idx| (kv_bytes[..idx].to_vec(), Some(kv_bytes[idx + 1..].to_vec())))`
// (Iterator::position and a pattern-parameter closure: not expressible in Verus) - shim with that body:
// everything up to the first '=' is the key, everything after it the value; no '=' means no value.
#[verifier::external_body]
pub fn vx_split_kv(kv_bytes: &[u8]) -> (r: (Vec<u8>, Option<Vec<u8>>))
    ensures
        first_eq(kv_bytes@) == kv_bytes@.len() ==> r.0@ == kv_bytes@ && r.1 is None,
        first_eq(kv_bytes@) < kv_bytes@.len() ==> r.0@ == kv_bytes@.subrange(0, first_eq(kv_bytes@)) && r.1 is Some
            && r.1->Some_0@ == kv_bytes@.subrange(first_eq(kv_bytes@) + 1, kv_bytes@.len() as int),
{
    kv_bytes.iter().position(|&x| x == b'=').map_or_else(
        || (kv_bytes.to_vec(), None),
        |idx| (kv_bytes[..idx].to_vec(), Some(kv_bytes[idx + 1..].to_vec())),
    )
}
// where the n-th complete string of a TXT RDATA starts (n strings of `len, bytes` consumed); -1 once the
// data is exhausted, a zero length byte is met or a string runs past the end
pub open spec fn txt_next(txt: Seq<u8>, off: int) -> int {
    if off >= txt.len() || txt[off] == 0 || off + 1 + txt[off] > txt.len() { -1 } else { off + 1 + txt[off] }
}

// property p is exactly the decoding of the byte string s: split at the first '=', key = UTF-8 text
pub open spec fn kv_split(s: Seq<u8>, p: TxtProperty) -> bool {
    (first_eq(s) == s.len() ==> utf8(p.key@) == s && p.val is None)
    && (first_eq(s) < s.len() ==> utf8(p.key@) == s.subrange(0, first_eq(s)) && p.val is Some && p.val->Some_0@ == s.subrange(first_eq(s) + 1, s.len() as int))
}
// start of the n-th string of the record when the strings are read one after the other from offset 0
pub open spec fn nth_start(txt: Seq<u8>, n: int) -> int
    decreases n
{
    if n <= 0 { 0 } else { let p = nth_start(txt, n - 1); if p < 0 { -1 } else { txt_next(txt, p) } }
}
// p was decoded from the n-th length-prefixed string of the record, for some n (strings are consecutive,
// each lies inside the record)
pub open spec fn from_record(txt: Seq<u8>, p: TxtProperty) -> bool {
    exists|n: int| 0 <= n && #[trigger] nth_start(txt, n) >= 0 && txt_next(txt, nth_start(txt, n)) >= 0
        && kv_split(txt.subrange(nth_start(txt, n) + 1, txt_next(txt, nth_start(txt, n))), p)
}

// ---- encoding side ----
#[verifier::external_body]
pub fn vx_string_into_bytes(s: String) -> (r: Vec<u8>)
    ensures r@ == utf8(s@),
{ s.into_bytes() }
// `s.extend(b"=")`
#[verifier::external_body]
pub fn vx_extend_eq_sign(s: &mut Vec<u8>)
    ensures final(s)@ == old(s)@.push(61u8),
{ s.extend(b"=") }
// `bytes.extend(s)` with s: Vec<u8> by value
#[verifier::external_body]
pub fn vx_extend_vec(bytes: &mut Vec<u8>, s: Vec<u8>)
    ensures final(bytes)@ == old(bytes)@ + s@,
{ bytes.extend(s) }
// the bytes of one "key=value" / "key" string
pub open spec fn prop_bytes(p: TxtProperty) -> Seq<u8> {
    match p.val { Some(v) => utf8(p.key@).push(61u8) + v@, None => utf8(p.key@) }
}
// RFC 6763 6: each property as one length-prefixed string, in order
pub open spec fn enc_all(ps: Seq<&TxtProperty>, n: int) -> Seq<u8>
    decreases n
{
    if n <= 0 { Seq::<u8>::empty() } else { enc_all(ps, n - 1).push(prop_bytes(*ps[n - 1]).len() as u8) + prop_bytes(*ps[n - 1]) }
}
pub proof fn lemma_enc_all_nonempty(ps: Seq<&TxtProperty>, n: int)
    requires n > 0
    ensures enc_all(ps, n).len() > 0
{}

// ---- exact decoding spec (used by the round-trip lemma) ----
pub open spec fn str_k(txt: Seq<u8>, k: int) -> Seq<u8> {
    txt.subrange(nth_start(txt, k) + 1, txt_next(txt, nth_start(txt, k)))
}
pub open spec fn key_bytes(s: Seq<u8>) -> Seq<u8> {
    if first_eq(s) == s.len() { s } else { s.subrange(0, first_eq(s)) }
}
// the record consists of exactly n complete strings before decoding stops
pub open spec fn is_total(txt: Seq<u8>, n: int) -> bool {
    0 <= n && nth_start(txt, n) >= 0 && txt_next(txt, nth_start(txt, n)) < 0
}
pub open spec fn keys_valid(txt: Seq<u8>, n: int) -> bool {
    forall|k: int| 0 <= k < n ==> valid_utf8(key_bytes(#[trigger] str_k(txt, k)))
}

pub open spec fn no_eq(k: Seq<u8>) -> bool { first_eq(k) == k.len() }
// what ServiceInfo::new accepts (C16's quantifier): key without '=', key[=value] of 1..=255 bytes
pub open spec fn encodable(p: TxtProperty) -> bool { 1 <= prop_bytes(p).len() <= 255 && no_eq(utf8(p.key@)) }
