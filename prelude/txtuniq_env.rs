// ---- decode_txt_unique ----
#[verifier::external_body]
#[verifier::reject_recursive_types(K)]
pub struct HashSet<K> { x: core::marker::PhantomData<K> }
impl<K> HashSet<K> {
    pub uninterp spec fn view(&self) -> Set<K>;
    #[verifier::external_body]
    pub fn new() -> (r: Self) ensures r@ == Set::<K>::empty() { unimplemented!() }
    #[verifier::external_body]
    pub fn insert(&mut self, k: K) -> (r: bool) ensures final(self)@ == old(self)@.insert(k), r == !old(self)@.contains(k) { unimplemented!() }
}
pub uninterp spec fn lower(s: Seq<char>) -> Seq<char>;
pub assume_specification [str::to_lowercase] (s: &str) -> (r: String)
    ensures r@ == lower(s@);
#[verifier::external_body]
pub broadcast proof fn axiom_string_ext(a: String, b: String)
    ensures #![trigger a@, b@] a@ == b@ ==> a == b,
{}
// `Vec::retain(f)` visits every element once, in order, and keeps those f answers true for; where f has side effects the call
// is written out as that loop (the vector is emptied into a sequence first)
#[verifier::external_body]
pub fn vx_vec_take<T>(v: &mut Vec<T>) -> (r: Vec<T>)
    ensures r@ == old(v)@, final(v)@ == Seq::<T>::empty(),
{ unimplemented!() }
// the statement: of the decoded properties, the first occurrence of each key, keys compared without regard to case
pub open spec fn first_occ(ps: Seq<TxtProperty>, i: int) -> bool { forall|j: int| 0 <= j < i ==> lower((#[trigger] ps[j]).key@) != lower(ps[i].key@) }
pub open spec fn keep_first(ps: Seq<TxtProperty>, n: int) -> Seq<TxtProperty>
    decreases n,
{
    if n <= 0 { Seq::empty() } else if first_occ(ps, n - 1) { keep_first(ps, n - 1).push(ps[n - 1]) } else { keep_first(ps, n - 1) }
}
pub uninterp spec fn str_of(s: Seq<char>) -> String;
#[verifier::external_body]
pub broadcast proof fn axiom_str_of(s: Seq<char>)
    ensures #[trigger] str_of(s)@ == s,
{}
pub open spec fn seen_keys(ks: Set<String>, ps: Seq<TxtProperty>, n: int) -> bool {
    (forall|j: int| 0 <= j < n ==> ks.contains(str_of(lower((#[trigger] ps[j]).key@))))
    && (forall|k: String| #[trigger] ks.contains(k) ==> exists|j: int| 0 <= j < n && k@ == lower((#[trigger] ps[j]).key@))
}
// what decode_txt guarantees about its result (its postconditions, collected)
pub open spec fn decoded_as(txt: Seq<u8>, ps: Seq<TxtProperty>) -> bool {
    ps.len() <= txt.len()
    && (forall|i: int| 0 <= i < ps.len() ==> utf8((#[trigger] ps[i]).key@).len() + (match ps[i].val { Some(v) => v@.len() + 1, None => 0 }) <= 255)
    && (exists|n: int| is_total(txt, n) && ps.len() <= n && (keys_valid(txt, n) ==> ps.len() == n && forall|k: int| 0 <= k < n ==> kv_split(str_k(txt, k), #[trigger] ps[k])))
    && (forall|i: int| 0 <= i < ps.len() ==> from_record(txt, #[trigger] ps[i]))
}
// `vec.iter().find(|&x| P(x))`: the first element satisfying P
#[verifier::external_body]
pub fn vx_find_first_prop<'a, F: Fn(&TxtProperty) -> bool>(v: &'a Vec<TxtProperty>, f: F, p: Ghost<spec_fn(TxtProperty) -> bool>) -> (r: Option<&'a TxtProperty>)
    requires forall|i: int| 0 <= i < v@.len() ==> f.requires((&#[trigger] v@[i],)), forall|x: &TxtProperty, b: bool| #[trigger] f.ensures((x,), b) ==> b == p@(*x),
    ensures
        r is Some ==> exists|i: int| 0 <= i < v@.len() && #[trigger] v@[i] == *r->Some_0 && p@(v@[i]) && forall|j: int| 0 <= j < i ==> !p@(#[trigger] v@[j]),
        r is None ==> forall|i: int| 0 <= i < v@.len() ==> !p@(#[trigger] v@[i]),
{ unimplemented!() }
