// ---- environment of unit `validate` (trusted): str predicates without vstd specs, as shims with the same body ----
pub uninterp spec fn blen(s: Seq<char>) -> nat;
// byte offsets that are character boundaries of s (0 and blen(s) always are)
pub uninterp spec fn char_boundary(s: Seq<char>, i: int) -> bool;
#[verifier::external_body]
pub fn vx_str_len(s: &str) -> (r: usize)
    ensures r == blen(s@),
{ s.len() }
// the crate defines `const DOMAIN_LEN: usize = "._tcp.local.".len();` (presence checked by @expect)
pub const DOMAIN_LEN: usize = 12;
#[verifier::external_body]
pub fn vx_ends_with(s: &str, suffix: &str) -> (r: bool)
    ensures r ==> blen(s@) >= blen(suffix@) && char_boundary(s@, blen(s@) - blen(suffix@)),
{ s.ends_with(suffix) }
#[verifier::external_body]
pub fn vx_starts_with_char(s: &str, c: char) -> (r: bool)
    ensures r && c == '_' ==> blen(s@) >= 1 && char_boundary(s@, 1),
{ s.starts_with(c) }
#[verifier::external_body]
pub fn vx_ends_with_char(s: &str, c: char) -> (r: bool) { s.ends_with(c) }
#[verifier::external_body]
pub fn vx_contains(s: &str, pat: &str) -> (r: bool) { s.contains(pat) }
#[verifier::external_body]
pub fn vx_str_eq(a: &str, b: &str) -> (r: bool)
    ensures r == (a@ == b@),
{ a == b }
// `&s[..n]`, `&s[a..b]`, `&s[n..]`: panics unless the bounds are in range character boundaries
#[verifier::external_body]
pub fn vx_str_to(s: &str, n: usize) -> (r: &str)
    requires n <= blen(s@), char_boundary(s@, n as int),
    ensures blen(r@) == n,
{ &s[..n] }
#[verifier::external_body]
pub fn vx_str_range(s: &str, a: usize, b: usize) -> (r: &str)
    requires a <= b <= blen(s@), char_boundary(s@, a as int), char_boundary(s@, b as int),
    ensures blen(r@) == b - a,
{ &s[a..b] }
#[verifier::external_body]
pub fn vx_str_from(s: &str, n: usize) -> (r: &str)
    requires n <= blen(s@), char_boundary(s@, n as int),
    ensures blen(r@) == blen(s@) - n,
{ &s[n..] }
// `x.split('.').collect::<Vec<&str>>().last()`: the text after the last '.', any string (possibly empty)
#[verifier::external_body]
pub fn vx_last_dot_part<'a>(s: &'a str) -> (r: Option<&'a str>) { s.split('.').collect::<Vec<&str>>().last().copied() }
#[verifier::external_body]
pub fn vx_count_ascii_alphabetic(s: &str) -> (r: usize) { s.chars().filter(|c| c.is_ascii_alphabetic()).count() }
#[verifier::external_body]
pub broadcast proof fn axiom_domain_len()
    ensures #[trigger] blen("._tcp.local."@) == 12, blen("._udp.local."@) == 12, blen(".local."@) == 7,
{}
