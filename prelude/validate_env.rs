// ---- environment of unit `validate` (trusted): str predicates without vstd specs, as shims with the same body ----
pub uninterp spec fn blen(s: Seq<char>) -> nat;
// byte offsets that are character boundaries of s (0 and blen(s) always are)
pub uninterp spec fn char_boundary(s: Seq<char>, i: int) -> bool;
#[verifier::external_body]
pub fn vx_str_len(s: &str) -> (r: usize)
    ensures r == blen(s@),
{ s.len() }
// the crate defines `const DOMAIN_LEN: usize = "._tcp.local.".len();` (presence checked by @expect)
pub const DOMAIN_LEN: usize = 12;
#[verifier::external_body]
pub fn vx_ends_with(s: &str, suffix: &str) -> (r: bool)
    ensures r ==> blen(s@) >= blen(suffix@) && char_boundary(s@, blen(s@) - blen(suffix@)),
{ s.ends_with(suffix) }
#[verifier::external_body]
pub fn vx_starts_with_char(s: &str, c: char) -> (r: bool)
    ensures r && c == '_' ==> blen(s@) >= 1 && char_boundary(s@, 1),
{ s.starts_with(c) }
#[verifier::external_body]
pub fn vx_ends_with_char(s: &str, c: char) -> (r: bool) { s.ends_with(c) }
#[verifier::external_body]
pub fn vx_contains(s: &str, pat: &str) -> (r: bool) { s.contains(pat) }
#[verifier::external_body]
pub fn vx_str_eq(a: &str, b: &str) -> (r: bool)
    ensures r == (a@ == b@),
{ a == b }
// `&s[..n]`, `&s[a..b]`, `&s[n..]`: panics unless the bounds are in range character boundaries
#[verifier::external_body]
pub fn vx_str_to(s: &str, n: usize) -> (r: &str)
    requires n <= blen(s@), char_boundary(s@, n as int),
    ensures blen(r@) == n,
{ &s[..n] }
#[verifier::external_body]
pub fn vx_str_range(s: &str, a: usize, b: usize) -> (r: &str)
    requires a <= b <= blen(s@), char_boundary(s@, a as int), char_boundary(s@, b as int),
    ensures blen(r@) == b - a,
{ &s[a..b] }
#[verifier::external_body]
pub fn vx_str_from(s: &str, n: usize) -> (r: &str)
    requires n <= blen(s@), char_boundary(s@, n as int),
    ensures blen(r@) == blen(s@) - n,
{ &s[n..] }
// `x.split('.').collect::<Vec<&str>>().last()`: the text after the last '.', any string (possibly empty)
#[verifier::external_body]
pub fn vx_last_dot_part<'a>(s: &'a str) -> (r: Option<&'a str>) { s.split('.').collect::<Vec<&str>>().last().copied() }
#[verifier::external_body]
pub fn vx_count_ascii_alphabetic(s: &str) -> (r: usize) { s.chars().filter(|c| c.is_ascii_alphabetic()).count() }
#[verifier::external_body]
pub broadcast proof fn axiom_domain_len()
    ensures #[trigger] blen("._tcp.local."@) == 12, blen("._udp.local."@) == 12, blen(".local."@) == 7,
{}

// ---- name_change / hostname_change: std string operations as shims (byte-level facts from the std documentation) ----
pub uninterp spec fn byte_at(s: Seq<char>, i: int) -> u8;
#[verifier::external_body]
pub broadcast proof fn axiom_paren_pat()
    ensures #[trigger] blen(" ("@) == 2, byte_at(" ("@, 0) == 32u8, byte_at(" ("@, 1) == 40u8,
{}
// `s.split('.').collect::<Vec<&str>>()`: at least one part
#[verifier::external_body]
pub fn vx_split_dots<'a>(s: &'a str) -> (r: Vec<&'a str>)
    ensures r@.len() >= 1,
{ s.split('.').collect() }
// `v.get_mut(0)`
#[verifier::external_body]
pub fn vx_vec_first_mut<'b, 'a>(v: &'b mut Vec<&'a str>) -> (r: Option<&'b mut &'a str>)
    ensures
        old(v)@.len() == 0 ==> r is None && *final(v) == *old(v),
        old(v)@.len() > 0 ==> r is Some && *r->Some_0 == old(v)@[0] && final(v)@ == old(v)@.update(0, *final(r->Some_0)),
{ v.get_mut(0) }
// `s.rfind(pat)`: byte offset of the last match; the match lies inside s, on character boundaries
#[verifier::external_body]
pub fn vx_rfind(s: &str, pat: &str) -> (r: Option<usize>)
    ensures blen(s@) <= isize::MAX, r is Some ==> r->Some_0 + blen(pat@) <= blen(s@) && char_boundary(s@, r->Some_0 as int) && char_boundary(s@, r->Some_0 + blen(pat@))
        && forall|i: int| 0 <= i < blen(pat@) ==> byte_at(s@, r->Some_0 + i) == #[trigger] byte_at(pat@, i),
{ s.rfind(pat) }
#[verifier::external_body]
pub fn vx_rfind_char(s: &str, c: char) -> (r: Option<usize>)
    ensures blen(s@) <= isize::MAX, r is Some && c == '-' ==> r->Some_0 + 1 <= blen(s@) && char_boundary(s@, r->Some_0 as int) && char_boundary(s@, r->Some_0 + 1),
{ s.rfind(c) }
// `s.find(c)` for an ASCII char: the first byte equal to it
#[verifier::external_body]
pub fn vx_find_char(s: &str, c: char) -> (r: Option<usize>)
    ensures blen(s@) <= isize::MAX, r is Some && c == ')' ==> r->Some_0 < blen(s@) && byte_at(s@, r->Some_0 as int) == 41u8 && char_boundary(s@, r->Some_0 as int) && char_boundary(s@, r->Some_0 + 1),
{ s.find(c) }
// `&s[n..]` with the bytes it keeps
#[verifier::external_body]
pub fn vx_str_from_b(s: &str, n: usize) -> (r: &str)
    requires n <= blen(s@), char_boundary(s@, n as int),
    ensures blen(r@) == blen(s@) - n, forall|i: int| 0 <= i < blen(r@) ==> #[trigger] byte_at(r@, i) == byte_at(s@, n + i),
        forall|i: int| 0 <= i <= blen(r@) ==> (#[trigger] char_boundary(r@, i) == char_boundary(s@, n + i)),
{ &s[n..] }
pub struct ParseIntError {}
#[verifier::external_body]
pub fn vx_parse_u32(s: &str) -> (r: core::result::Result<u32, ParseIntError>) { unimplemented!() } // s.parse::<u32>()
#[verifier::external_body]
pub fn vx_join_dots(v: &Vec<&str>) -> (r: String) { v.join(".") }
