// ---- sockets / sending (trusted; nothing below touches daemon state) ----
#[derive(PartialEq, Eq, Structural)]
pub struct Domain(pub i32);
impl Domain {
    pub const IPV4: Domain = Domain(2);
    pub const IPV6: Domain = Domain(10);
}
#[verifier::external_body] pub struct PktInfoUdpSocket { x: u8 }
impl PktInfoUdpSocket {
    pub uninterp spec fn dom(&self) -> Domain;
    #[verifier::external_body]
    pub fn domain(&self) -> (r: Domain)
        ensures r == self.dom(),
    { unimplemented!() }
}
#[verifier::external_body] pub struct SocketAddr { x: u8 }
// builds the packets (DnsOutgoing::to_data_on_wire) and multicasts / unicasts them on one interface
#[verifier::external_body]
// wire contract of a unicast (legacy, RFC 6762 6.7) reply as stub precondition: it keeps its ID (is marked unicast) and
// carries no cache-flush bit
pub fn send_dns_outgoing(out: &DnsOutgoing, my_intf: &MyIntf, sock: &PktInfoUdpSocket, port: u16, source: Option<&IfAddr>, unicast_dest: Option<SocketAddr>) -> (r: MyResult<Vec<Vec<u8>>>)
    requires
        unicast_dest is Some ==> !out.multicast, // @props C06
        unicast_dest is Some ==> no_flush(ashapes(out.answers@)) && no_flush(shapes(out.additionals@)), // @props C06
{ unimplemented!() }

pub open spec fn flush_of(s: RecShape) -> bool {
    match s {
        RecShape::Ptr { flush, .. } => flush,
        RecShape::Srv { flush, .. } => flush,
        RecShape::Txt { flush, .. } => flush,
        RecShape::Addr { flush, .. } => flush,
        RecShape::Other => false,
    }
}
pub open spec fn no_flush(v: Seq<RecShape>) -> bool { forall|k: int| 0 <= k < v.len() ==> !flush_of(#[trigger] v[k]) }
