"""Generate one Verus file per unit from /repo's current working tree + the contract sidecar.

What is verified is the text of the real functions, located by name on every run, copied
unchanged except for the enumerated mechanical rewrites (all logged):

  R1  `-> T` becomes `-> (ret: T)`
  R2  contract splice (requires/ensures/decreases, loop contracts, ghost/proof insertions)
  R3  `|_|` -> `|_e|`
  R4  literal std-call shims listed in the sidecar (`@rewrite`), replacement must name a vx_ shim
  R7  attributes / doc comments above items are not copied; `#[cfg(..)]`-style attribute lines
      inside copied structs are dropped
  R9  `for x in EXPR` -> `for x in NAME: EXPR` when the loop contract names its ghost iterator
"""
import os
import re
import hashlib

import rustscan as rs
from vspec import SpecError


class GenError(Exception):
    """Extraction failed: lost anchor, signature drift, unsupported shape.  -> exit 2."""
    pass


class Out:
    def __init__(self):
        self.lines = []
        self.tags = []

    def add(self, text, tag=None):
        for l in text.split('\n'):
            t = tag
            m = re.search(r'//\s*@props\s+([A-Z0-9 ]+)$', l)
            if m and tag is not None and tag.get('kind') in ('prelude', 'item'):
                t = dict(tag, props=m.group(1).split())     # env precondition tagged with the properties it serves
            self.lines.append(l)
            self.tags.append(t)

    def text(self):
        return '\n'.join(self.lines) + '\n'


class SrcFile:
    cache = {}

    def __init__(self, path):
        self.path = path
        self.src = open(path).read()
        self.mask = rs.code_mask(self.src)
        self.blocks = rs.top_blocks(self.src, self.mask)

    @classmethod
    def get(cls, path):
        if path not in cls.cache:
            cls.cache[path] = SrcFile(path)
        return cls.cache[path]


def locate_fn(sf, f):
    """Returns (sig_start, body_open|None, body_close, header) in sf.src."""
    src, mask = sf.src, sf.mask
    if f.kind == 'free':
        r = rs.find_fn_in(src, mask, f.name, 0, len(src))
        if r is None:
            raise GenError('free fn %s not found in %s' % (f.name, sf.path))
        return r[1], r[2], r[3], None
    cands = []
    for b in sf.blocks:
        h = b.header
        h2 = re.sub(r'^impl\s*<[^>]*>\s*', 'impl ', h)
        if f.kind == 'inherent':
            ok = re.match(r'^impl\s+' + re.escape(f.type) + r'(\s*<[^>]*>)?$', h2) is not None
        elif f.kind == 'traitimpl':
            ok = re.match(r'^impl\s+(\w+::)*' + re.escape(f.trait) + r'(\s*<[^>]*>)?\s+for\s+' + re.escape(f.type) + r'$', h2) is not None
        else:
            ok = re.match(r'^(pub(\([a-z]+\))?\s+)?trait\s+' + re.escape(f.trait) + r'\b', h) is not None
        if ok:
            cands.append(b)
    # also `pub trait` blocks begin at 'trait' keyword; top_blocks starts at the keyword so header has no 'pub'
    for b in cands:
        r = rs.find_fn_in(src, mask, f.name, b.bopen + 1, b.bclose)
        if r is not None:
            return r[1], r[2], r[3], b.header
    raise GenError('fn %s not found in %s (%d candidate blocks)' % (f.qual, sf.path, len(cands)))


INSERT_OK = re.compile(r'^\s*(proof\s*\{|assert\s*\(|assert\s+forall|let\s+ghost\s|let\s+tracked\s|broadcast\s+use|reveal)')


def check_insert_is_ghost(ins, where):
    txt = '\n'.join(ins.text).strip()
    if not INSERT_OK.match(txt):
        raise GenError('%s: inserted text must be proof/ghost code: %r' % (where, txt[:60]))
    # every top-level statement of the insertion must itself be ghost: cheap check = balanced and
    # contains no exec macros
    if re.search(r'\bassert!\s*\(|\bunreachable!|\bpanic!', txt):
        raise GenError('%s: exec macro in inserted proof text' % where)


def apply_rewrites(text, required, optional, log, fnq):
    mask = rs.code_mask(text)
    for (lst, must) in ((required, False), (optional, False)):   # anchors that vanished are skipped: the verifier then judges the code as it is
        for (frm, to, _allf) in lst:
            cnt = 0
            start = 0
            if _allf == 'call':
                # call rewrite: the regex matches the callee text, ending right before the `(` of the call; the argument
                # text up to the matching `)` is available to the template as $ARGS (shape-independent: the call may sit in
                # a `match`, an `if let`, a `let`, span several lines)
                pat = re.compile(frm, re.S)
                pos = 0
                while True:
                    mt = pat.search(text, pos)
                    if not mt:
                        break
                    if not mask[mt.start()] or mt.end() >= len(text) or text[mt.end()] != '(':
                        pos = mt.start() + 1
                        continue
                    close = rs.match_close(text, mask, mt.end())
                    args = text[mt.end() + 1:close].strip()
                    if args.endswith(','):
                        args = args[:-1].rstrip()
                    rep = mt.expand(to).replace('$ARGS', args)
                    whole_old = text[mt.start():close + 1]
                    if rep.count('\n') < whole_old.count('\n'):
                        rep = rep + '\n' * (whole_old.count('\n') - rep.count('\n'))
                    text = text[:mt.start()] + rep + text[close + 1:]
                    mask = rs.code_mask(text)
                    pos = mt.start() + len(rep)
                    cnt += 1
                if cnt:
                    log.append({'fn': fnq, 'rule': 'R20', 'from': 'call:' + frm, 'to': to, 'count': cnt})
                continue
            if _allf == 're':
                # regex rewrite (DOTALL); every match must start in code
                pat = re.compile(frm, re.S)
                pos = 0
                while True:
                    mt = pat.search(text, pos)
                    if not mt:
                        break
                    if not mask[mt.start()]:
                        pos = mt.start() + 1
                        continue
                    rep = mt.expand(to)
                    if rep.count('\n') != mt.group(0).count('\n'):
                        rep = rep + '\n' * (mt.group(0).count('\n') - rep.count('\n'))
                    text = text[:mt.start()] + rep + text[mt.end():]
                    mask = rs.code_mask(text)
                    pos = mt.start() + len(rep)
                    cnt += 1
                if cnt == 0:
                    if must:
                        raise GenError('%s: rewrite_re anchor not found: %r' % (fnq, frm))
                    continue
                log.append({'fn': fnq, 'rule': 'R4', 'from': 're:' + frm, 'to': to, 'count': cnt})
                continue
            while True:
                k = text.find(frm, start)
                if k < 0:
                    break
                if not mask[k]:
                    start = k + 1
                    continue
                text = text[:k] + to + text[k + len(frm):]
                mask = rs.code_mask(text)
                cnt += 1
                start = k + len(to)
            if cnt == 0:
                if must:
                    raise GenError('%s: rewrite anchor not found: %r' % (fnq, frm))
                continue
            log.append({'fn': fnq, 'rule': 'R4', 'from': frm, 'to': to, 'count': cnt})
    # R3
    n3 = text.count('|_|')
    if n3:
        text = text.replace('|_|', '|_e|')
        log.append({'fn': fnq, 'rule': 'R3', 'from': '|_|', 'to': '|_e|', 'count': n3})
    return text


def _enclosing_open(text, mask, pos):
    """index of the nearest '{' (in code) that encloses pos, or -1"""
    d = 0
    j = pos - 1
    while j >= 0:
        if mask[j]:
            c = text[j]
            if c == '}':
                d += 1
            elif c == '{':
                if d == 0:
                    return j
                d -= 1
        j -= 1
    return -1


def _block_header(text, mask, bopen):
    """(start, header text) of the statement head that owns the block opening at bopen:
    back to the previous ';', '{' or '}' in code at paren depth 0"""
    j = bopen - 1
    pd = 0
    while j >= 0:
        if mask[j]:
            c = text[j]
            if c in ')]':
                pd += 1
            elif c in '([':
                pd -= 1
            elif pd == 0 and c in ';{}':
                break
        j -= 1
    # comments in between are blanked; the start is moved to the first code character
    h = ''.join(ch if mask[k] or ch == '\n' else ' ' for k, ch in enumerate(text[j + 1:bopen], j + 1))
    st = j + 1
    while st < bopen and (text[st].isspace() or not mask[st]):
        st += 1
    return st, h


def _skip_ws(text, mask, k):
    while k < len(text) and (text[k].isspace() or not mask[k]):
        k += 1
    return k


def _chain_end(text, mask, bclose):
    """bclose closes a block of an if / else chain: index just after the end of the whole chain"""
    k = bclose + 1
    while True:
        j = _skip_ws(text, mask, k)
        if text.startswith('else', j) and not (text[j + 4].isalnum() or text[j + 4] == '_'):
            j = j + 4
            # up to the next '{' at paren depth 0
            pd = 0
            while j < len(text):
                if mask[j]:
                    c = text[j]
                    if c in '([':
                        pd += 1
                    elif c in ')]':
                        pd -= 1
                    elif pd == 0 and c == '{':
                        break
                j += 1
            k = rs.match_close(text, mask, j) + 1
            continue
        return k


CONT_RE = re.compile(r'\bcontinue\b')


def continue_elim(text, log, fnq):
    """R12: Verus has no `continue` in for-loops.  A `continue` that is the last statement of a guard
    `if C { PRE continue; }` or of `let PAT = E else { continue; };`, with nothing left to execute in the loop
    body after the statement's enclosing if-chains, is replaced by putting the rest of the block under `else`
    (resp. under `if let`).  Same control flow; anything else is left as it is (Verus then stops: exit 2)."""
    cnt = 0
    skip_before = 0
    while True:
        mask = rs.code_mask(text)
        c = -1
        for mt in CONT_RE.finditer(text, skip_before):
            if mask[mt.start()]:
                c = mt.start()
                break
        if c < 0:
            break
        skip_before = c + 1
        after = _skip_ws(text, mask, c + 8)
        if after >= len(text) or text[after] != ';':
            continue
        # which loop does it belong to?
        b = _enclosing_open(text, mask, c)
        owner = None
        bb = b
        while bb >= 0:
            hs, h = _block_header(text, mask, bb)
            hn = h.strip()
            if re.match(r"^('\w+\s*:\s*)?for\b", hn):
                owner = ('for', bb)
                break
            if re.match(r"^('\w+\s*:\s*)?(while|loop)\b", hn):
                owner = ('other', bb)
                break
            bb = _enclosing_open(text, mask, bb)
        if owner is None or owner[0] != 'for':
            continue
        for_body = owner[1]
        e0 = rs.match_close(text, mask, b)
        if _skip_ws(text, mask, after + 1) != e0:
            continue                      # not the last statement of its block
        hs, h = _block_header(text, mask, b)
        hn = ' '.join(h.split())
        pre = text[b + 1:c]
        if re.match(r'^if\b', hn):
            nxt = _skip_ws(text, mask, e0 + 1)
            if text.startswith('else', nxt):
                continue
            stmt_end = e0 + 1
            kind = 'guard'
        elif re.match(r'^let\b.*\belse$', hn) and not pre.strip():
            nxt = _skip_ws(text, mask, e0 + 1)
            if text[nxt] != ';':
                continue
            stmt_end = nxt + 1
            kind = 'letelse'
        else:
            continue
        P = _enclosing_open(text, mask, hs)
        pe = rs.match_close(text, mask, P)
        # tail check: nothing executes in the for body after block P
        X = P
        ok = True
        while X != for_body:
            xs, xh = _block_header(text, mask, X)
            xhn = xh.strip()
            if not re.match(r'^(if\b|else\b)', xhn):
                ok = False
                break
            ce = _chain_end(text, mask, rs.match_close(text, mask, X))
            parent = _enclosing_open(text, mask, xs)
            # an `else` header starts after the '}' of the preceding if-block: climb to the real parent
            while parent >= 0 and rs.match_close(text, mask, parent) < ce - 1:
                parent = _enclosing_open(text, mask, parent)
            if parent < 0 or _skip_ws(text, mask, ce) != rs.match_close(text, mask, parent):
                ok = False
                break
            X = parent
        if not ok:
            continue
        rest = text[stmt_end:pe]
        # the closing brace of the new else / if-let block goes right before the closing brace of the enclosing block
        ins_at = pe
        if kind == 'guard':
            if rest.strip():
                text = text[:ins_at] + '} ' + text[ins_at:]
                text = text[:c] + text[after + 1:e0] + '} else {' + text[e0 + 1:]
            else:
                text = text[:c] + text[after + 1:]
        else:
            text = text[:ins_at] + '} ' + text[ins_at:]
            head = 'if ' + hn[:-len('else')].rstrip() + ' {'
            removed = text[hs:stmt_end]
            lead = re.match(r'\s*', removed).group(0)
            text = text[:hs] + lead + head + '\n' * (removed.count('\n') - lead.count('\n')) + text[stmt_end:]
        cnt += 1
        skip_before = 0
    if cnt:
        log.append({'fn': fnq, 'rule': 'R12', 'from': 'continue; in tail position of a for-loop body', 'to': 'else { rest of the block } / if let', 'count': cnt})
    return text


RET_RE = re.compile(r'\breturn\b')
RETBLOCK_RE = re.compile(r'/\*@retblock (\w+) (\w+)\*/\s*\{')


def _has_code(text, mask, rx, lo, hi):
    for mt in rx.finditer(text, lo, hi):
        if mask[mt.start()]:
            return True
    return False


def _split_items(text, mask, lo, hi):
    """Top-level items of the block contents text[lo:hi]: list of (start, end) with end exclusive; a statement ends
    at its ';' at depth 0, a block-like statement (if/if let/for/while/loop/match/bare block) at the '}' that closes it
    (after its else-chain) unless it goes on as an expression; the last item may be the tail expression."""
    items = []
    k = _skip_ws(text, mask, lo)
    while k < hi:
        st = k
        d = 0
        j = k
        end = None
        head = text[st:st + 12]
        blocklike = re.match(r"^(if\b|for\b|while\b|loop\b|match\b|unsafe\b|\{|'\w+\s*:)", head) is not None
        while j < hi:
            if mask[j]:
                c = text[j]
                if c in '([{':
                    d += 1
                elif c in ')]}':
                    d -= 1
                    if d == 0 and c == '}' and blocklike:
                        ce = _chain_end(text, mask, j)
                        nx = _skip_ws(text, mask, ce)
                        if nx < hi and text[nx] in '.?;':
                            j = ce if text[nx] != ';' else nx
                            if text[nx] == ';':
                                end = nx + 1
                                break
                            blocklike = False
                            continue
                        end = ce
                        break
                elif d == 0 and c == ';':
                    end = j + 1
                    break
            j += 1
        if end is None:
            end = hi
        items.append((st, end))
        k = _skip_ws(text, mask, end)
    return items


def _ret_elim_block(text, lo, hi, top, done, val, fnq, kind='return'):
    """contents text[lo:hi] of a block -> new contents (string)"""
    mask = rs.code_mask(text)
    items = _split_items(text, mask, lo, hi)
    out = []
    key_re = RET_RE if kind == 'return' else CONT_RE
    for n, (st, en) in enumerate(items):
        it = text[st:en]
        if not _has_code(text, mask, key_re, st, en) or (kind == 'continue' and re.match(r"^(for\b|while\b|loop\b|'\w+\s*:)", it)):
            out.append(it)       # (a nested loop keeps its own `continue`s: they are treated when its turn comes)
            continue
        m = re.match(r'^return\b\s*(.*?);\s*$', it, re.S) if kind == 'return' else None
        mc = re.match(r'^continue\s*;\s*$', it) if kind == 'continue' else None
        if m and mask[st]:
            new_it = '%s = %s; %s = true;' % (val, m.group(1).strip() or '()', done)
        elif mc and mask[st]:
            new_it = '%s = true;' % done
        elif re.match(r'^if\b', it):
            # an if / else chain: every block of the chain is treated in turn (not top: unit-valued)
            pieces = []
            pos = st
            while True:
                # next block opening at paren depth 0
                pd = 0
                b = pos
                while b < en:
                    if mask[b]:
                        c = text[b]
                        if c in '([':
                            pd += 1
                        elif c in ')]':
                            pd -= 1
                        elif pd == 0 and c == '{':
                            break
                    b += 1
                if b >= en:
                    break
                bc = rs.match_close(text, mask, b)
                pieces.append(text[pos:b + 1])
                pieces.append(_ret_elim_block(text, b + 1, bc, False, done, val, fnq, kind))
                pieces.append('}')
                pos = bc + 1
                nx = _skip_ws(text, mask, pos)
                if not (text.startswith('else', nx) and nx < en):
                    break
            pieces.append(text[pos:en])
            new_it = ''.join(pieces)
        elif re.match(r'^match\b', it):
            # a match statement: every arm is treated in turn; an arm that is the bare keyword becomes a block
            pd = 0
            b = st
            while b < en:
                if mask[b]:
                    c = text[b]
                    if c in '([':
                        pd += 1
                    elif c in ')]':
                        pd -= 1
                    elif pd == 0 and c == '{':
                        break
                b += 1
            if b >= en:
                raise GenError('%s: R17/R12b: match without a block' % fnq)
            bc = rs.match_close(text, mask, b)
            pieces = [text[st:b + 1]]
            pos = b + 1
            while True:
                # next `=>` at depth 0 of the match block
                d = 0
                a = pos
                while a < bc:
                    if mask[a]:
                        c = text[a]
                        if c in '([{':
                            d += 1
                        elif c in ')]}':
                            d -= 1
                        elif d == 0 and text[a:a + 2] == '=>':
                            break
                    a += 1
                if a >= bc:
                    break
                body_st = _skip_ws(text, mask, a + 2)
                pieces.append(text[pos:body_st])
                if text[body_st] == '{':
                    ac = rs.match_close(text, mask, body_st)
                    pieces.append('{')
                    pieces.append(_ret_elim_block(text, body_st + 1, ac, False, done, val, fnq, kind))
                    pieces.append('}')
                    pos = ac + 1
                else:
                    # expression arm: up to the `,` at depth 0 (or the end of the match block)
                    d = 0
                    e = body_st
                    while e < bc:
                        if mask[e]:
                            c = text[e]
                            if c in '([{':
                                d += 1
                            elif c in ')]}':
                                d -= 1
                            elif d == 0 and c == ',':
                                break
                        e += 1
                    arm = text[body_st:e]
                    if _has_code(text, mask, key_re, body_st, e):
                        if kind == 'continue' and arm.strip() == 'continue':
                            pieces.append('{ %s = true; }' % done)
                        else:
                            raise GenError('%s: R17/R12b: `%s` inside a match arm expression' % (fnq, kind))
                    else:
                        pieces.append(arm)
                    pos = e
            pieces.append(text[pos:en])
            new_it = ''.join(pieces)
        else:
            raise GenError('%s: R17/R12b: `%s` in a place other than an if-chain, a match statement or a plain statement' % (fnq, kind))
        out.append(new_it)
        rest_lo = en
        if n + 1 < len(items):
            rest = _ret_elim_block(text, items[n + 1][0], hi, top, done, val, fnq, kind)
            if top:
                out.append('if %s { %s } else {\n%s\n}' % (done, val, rest))
            else:
                out.append('if !%s {\n%s\n}' % (done, rest))
        elif top:
            out.append('%s' % val)
        return '\n'.join(out)
    return '\n'.join(out)


def return_elim(text, log, fnq):
    """R17: the body of a closure that a rewrite has inlined as a value block `/*@retblock TYPE DEFAULT*/ { .. }` may
    contain `return V;` (early exit of the closure).  It is expressed with two locals: `return V;` becomes
    `val = V; done = true;`, and whatever follows a statement that may have returned runs under `if !done`
    (the block's value: `if done { val } else { rest }`).  Same control flow; other shapes stop (exit 2)."""
    cnt = 0
    while True:
        mask = rs.code_mask(text)
        mt = RETBLOCK_RE.search(text)
        if not mt:
            break
        cnt += 1
        ty, default = mt.group(1), mt.group(2)
        b = mt.end() - 1
        bc = rs.match_close(text, rs.code_mask(text), b)
        if not _has_code(text, rs.code_mask(text), RET_RE, b + 1, bc):
            text = text[:mt.start()] + '{' + text[b + 1:]
            continue
        done, val = 'vx_done%d' % cnt, 'vx_val%d' % cnt
        body = _ret_elim_block(text, b + 1, bc, True, done, val, fnq)
        new = '{ let mut %s: bool = false; let mut %s: %s = %s;\n%s\n}' % (done, val, ty, default, body)
        text = text[:mt.start()] + new + text[bc + 1:]
        log.append({'fn': fnq, 'rule': 'R17', 'from': 'return inside an inlined closure body', 'to': 'flag %s / value %s' % (done, val), 'count': 1})
    return text


def continue_flag_elim(text, log, fnq):
    """R12b: a `continue` of a for-loop that R12 could not turn into an else-branch (it is not in tail position) is
    expressed with a flag: `continue;` becomes `skip = true;` and whatever follows a statement that may have
    continued runs under `if !skip { .. }`.  Same control flow."""
    cnt = 0
    guard = 0
    while guard < 50:
        guard += 1
        mask = rs.code_mask(text)
        target = None
        for mt in CONT_RE.finditer(text):
            if not mask[mt.start()]:
                continue
            bb = _enclosing_open(text, mask, mt.start())
            while bb >= 0:
                hs, h = _block_header(text, mask, bb)
                hn = h.strip()
                if re.match(r"^('\w+\s*:\s*)?for\b", hn):
                    target = bb
                    break
                if re.match(r"^('\w+\s*:\s*)?(while|loop)\b", hn):
                    break
                bb = _enclosing_open(text, mask, bb)
            if target is not None:
                break
        if target is None:
            break
        cnt += 1
        bc = rs.match_close(text, mask, target)
        flag = 'vx_skip%d' % cnt
        body = _ret_elim_block(text, target + 1, bc, False, flag, None, fnq, 'continue')
        text = text[:target + 1] + ' let mut %s: bool = false;\n%s\n' % (flag, body) + text[bc:]
        log.append({'fn': fnq, 'rule': 'R12b', 'from': 'continue (not in tail position)', 'to': 'flag %s' % flag, 'count': 1})
    return text


def clause_lines(out, clauses, fnq, kind, indent, default_props, clause_index, loop=None):
    for c in clauses:
        cid = '%s.%s' % (fnq, c.id) if loop is None else '%s.loop%d.%s' % (fnq, loop, c.id)
        props = c.props if c.props is not None else default_props
        tag = {'kind': kind, 'fn': fnq, 'clause': cid, 'props': props}
        clause_index[cid] = {'fn': fnq, 'kind': kind, 'props': props, 'text': ' '.join(c.text.split())}
        body = c.text.rstrip()
        if body.endswith(','):
            body = body[:-1]
        first = True
        for l in body.split('\n'):
            out.add(indent + l.strip() if first else indent + '    ' + l.strip(), tag)
            first = False
        out.lines[-1] += ','


def gen_fn(out, unit, f, sf, meta, probe):
    src = sf.src
    try:
        sig_start, bopen, bclose, header = locate_fn(sf, f)
    except GenError:
        if getattr(f, 'optional', False):
            meta.setdefault('absent_optional', []).append(f.qual)
            return
        raise
    fnq = f.qual
    relfile = os.path.relpath(sf.path, meta['repo'])
    src_line0 = rs.line_of(src, sig_start)
    whole = src[sig_start:bclose + 1]
    sig_norm = rs.norm_ws(src[sig_start:(bopen if bopen is not None else bclose)])
    whole = apply_rewrites(whole, f.rewrites, unit.rewrites, meta['rewrites'], f.qual)
    whole = return_elim(whole, meta['rewrites'], f.qual)
    whole = continue_elim(whole, meta['rewrites'], f.qual)
    whole = continue_flag_elim(whole, meta['rewrites'], f.qual)
    if bopen is not None:
        wmask = rs.code_mask(whole)
        pd0 = 0
        nb = -1
        for k, ch in enumerate(whole):
            if not wmask[k]:
                continue
            if ch in '([':
                pd0 += 1
            elif ch in ')]':
                pd0 -= 1
            elif pd0 == 0 and ch == '{':
                nb = k
                break
        sig_text = whole[:nb]
        new_body = whole[nb:]
    else:
        sig_text = whole[:-1]
        new_body = None
    if f.sig_re is not None and not re.search(f.sig_re, sig_norm):
        raise GenError('%s: signature drift: %r does not match %r' % (fnq, sig_norm, f.sig_re))
    if bopen is None and not f.nobody:
        raise GenError('%s: has no body' % fnq)
    # R1: name the result
    sig = sig_text.rstrip()
    sig_mask = rs.code_mask(sig)
    # find '->' at paren depth 0
    pd = 0
    arrow = -1
    for k, ch in enumerate(sig):
        if not sig_mask[k]:
            continue
        if ch in '([':
            pd += 1
        elif ch in ')]':
            pd -= 1
        elif pd == 0 and ch == '-' and sig[k:k + 2] == '->':
            arrow = k
    where_clause = ''
    if arrow >= 0:
        ret_ty = sig[arrow + 2:].strip()
        mw = re.search(r'\bwhere\b', ret_ty)
        if mw:
            where_clause = ' ' + ret_ty[mw.start():]
            ret_ty = ret_ty[:mw.start()].strip()
        sig = sig[:arrow] + '-> (ret: %s)%s' % (ret_ty, where_clause)
        meta['rewrites'].append({'fn': fnq, 'rule': 'R1', 'from': '-> ' + ret_ty, 'to': '-> (ret: %s)' % ret_ty, 'count': 1})
    sig = re.sub(r'^(\s*)pub\(crate\)\s+', r'\1pub ', sig)
    default_props = f.props
    finfo = {'fn': fnq, 'file': relfile, 'line': src_line0, 'props': f.props, 'gen_start': len(out.lines) + 1,
             'sha': hashlib.sha256(src[sig_start:bclose + 1].encode()).hexdigest()[:16], 'loops': []}
    for a in f.extra_attrs:
        out.add('    ' + a, {'kind': 'attr', 'fn': fnq})
    if f.stub:
        out.add('    #[verifier::external_body] // contract imported from unit %s, proved there' % f.from_unit, {'kind': 'attr', 'fn': fnq})
    k = 0
    for l in sig.split('\n'):
        out.add(l, {'kind': 'sig', 'fn': fnq, 'src': (relfile, src_line0 + k)})
        k += 1
    ci = meta['clauses']
    if f.requires:
        out.add('        requires', {'kind': 'kw', 'fn': fnq})
        clause_lines(out, f.requires, fnq, 'requires', '            ', default_props, ci)
    if f.ensures:
        out.add('        ensures', {'kind': 'kw', 'fn': fnq})
        clause_lines(out, f.ensures, fnq, 'assumed' if f.stub else 'ensures', '            ', default_props, ci)
    if f.decreases:
        out.add('        decreases %s,' % f.decreases, {'kind': 'fn-decreases', 'fn': fnq, 'clause': fnq + '.decreases', 'props': default_props})
        ci[fnq + '.decreases'] = {'fn': fnq, 'kind': 'decreases', 'props': default_props, 'text': f.decreases}
    if f.stub:
        out.add('    { unimplemented!() }', {'kind': 'sig', 'fn': fnq})
        meta['imported_stubs'].append({'fn': fnq, 'from_unit': f.from_unit, 'dropped_requires': f.dropped_requires, 'sha': finfo['sha']})
        return
    if f.nobody:
        out.add('    ;', {'kind': 'sig', 'fn': fnq})
        finfo['gen_end'] = len(out.lines)
        meta['functions'].append(finfo)
        return
    body = new_body
    body_line0 = rs.line_of(src, bopen)
    bmask = rs.code_mask(body)
    # collect edits as (position, text, tag) to apply while emitting
    edits = []   # (pos, order, 'insert'|'replace', text lines, tag, replace_end)
    loops = rs.find_loops(body, bmask)
    used = set()
    for ls in f.loops:
        # locate the loop: by header text first (robust against loops added/removed before it), else by ordinal
        cand = None
        if ls.header_re:
            hits = [k for k, (kw_, lb_) in enumerate(loops) if re.search(ls.header_re, rs.norm_ws(body[kw_:lb_]))]
            same = [k for k in hits if k == ls.ordinal - 1]
            if same:
                cand = same[0]
            elif len(hits) == 1:
                cand = hits[0]
        elif 1 <= ls.ordinal <= len(loops):
            cand = ls.ordinal - 1
        if cand is None or (cand + 1) in used:
            # the contracted loop is gone: its contract is dropped and the function's own
            # postconditions decide (an un-contracted loop that remains makes Verus stop -> exit 2)
            meta['dropped_loop_contracts'].append({'fn': fnq, 'loop': ls.ordinal, 'header_re': ls.header_re})
            continue
        kw, lb = loops[cand]
        hdr = rs.norm_ws(body[kw:lb])
        ls_ord_eff = cand + 1
        used.add(ls_ord_eff)
        finfo['loops'].append({'ordinal': ls.ordinal, 'header': hdr, 'src_line': body_line0 + body.count('\n', 0, kw)})
        tmp = Out()
        if ls.invariant_except_break:
            tmp.add('            invariant_except_break', {'kind': 'kw', 'fn': fnq})
            clause_lines(tmp, ls.invariant_except_break, fnq, 'invariant', '                ', default_props, ci, loop=ls.ordinal)
        if ls.invariant:
            tmp.add('            invariant', {'kind': 'kw', 'fn': fnq})
            clause_lines(tmp, ls.invariant, fnq, 'invariant', '                ', default_props, ci, loop=ls.ordinal)
        if ls.ensures and re.match(r'^for\b', hdr):
            # measured: Verus neither checks nor assumes `ensures` on a for-loop that contains no `break`
            lb_close = rs.match_close(body, bmask, lb)
            if not re.search(r'\bbreak\b', ''.join(ch if bmask[k] else ' ' for k, ch in enumerate(body[lb:lb_close], lb))):
                raise GenError('%s: loop %d: `ensures` on a for-loop without break is ignored by Verus; state it as invariant' % (fnq, ls.ordinal))
        if ls.ensures:
            tmp.add('            ensures', {'kind': 'kw', 'fn': fnq})
            clause_lines(tmp, ls.ensures, fnq, 'loop-ensures', '                ', default_props, ci, loop=ls.ordinal)
        if ls.decreases:
            cid = '%s.loop%d.decreases' % (fnq, ls.ordinal)
            tmp.add('            decreases %s,' % ls.decreases, {'kind': 'decreases', 'fn': fnq, 'clause': cid, 'props': default_props})
            ci[cid] = {'fn': fnq, 'kind': 'decreases', 'props': default_props, 'text': ls.decreases}
        edits.append((lb, 0, 'insert', tmp, None))
        if probe:
            p = Out()
            meta['probe_seq'] = meta.get('probe_seq', 0) + 1
            p.add('            proof { if vx_probe(%d) { assert(false); } } // @vacuity-probe' % meta['probe_seq'], {'kind': 'probe', 'fn': fnq, 'probe': '%s.loop%d' % (fnq, ls.ordinal)})
            edits.append((lb + 1, 0, 'insert', p, None))
        if ls.iter:
            # R9: name the ghost iterator
            hdr_txt = body[kw:lb]
            m = re.match(r'^(for\s+.*?\s+in\s+)(.*)$', hdr_txt, re.S)
            if not m:
                raise GenError('%s: loop %d is not a for loop' % (fnq, ls.ordinal))
            edits.append((kw + len(m.group(1)), 1, 'text', ls.iter + ': ', None))
            meta['rewrites'].append({'fn': fnq, 'rule': 'R9', 'from': rs.norm_ws(hdr_txt), 'to': 'for .. in %s: ..' % ls.iter, 'count': 1})
    for hk, ins in enumerate(f.inserts):
        check_insert_is_ghost(ins, fnq)
        tmp = Out()
        hid = '%s.hint%d' % (fnq, hk + 1)
        hprops = ins.props if ins.props is not None else default_props
        if any(re.search(r'\bassert\b|\blemma_\w+\s*\(', l) for l in ins.text):
            ci[hid] = {'fn': fnq, 'kind': 'proof', 'props': hprops, 'text': 'inserted ghost assertion(s) / lemma call(s): ' + ' '.join(' '.join(ins.text).split())[:200]}
        for l in ins.text:
            tmp.add('        ' + l.rstrip(), {'kind': 'proof', 'fn': fnq, 'clause': hid, 'props': hprops})
        if ins.where == 'start':
            edits.append((1, 2, 'insert', tmp, None))
            continue
        if ins.where == 'end':
            edits.append((len(body) - 1, 2, 'insert', tmp, None))
            continue
        # an anchor may list alternatives `A ||| B` (the same statement in another shape, e.g. `match f(` / `if let Err(e) = f(`):
        # the first alternative that occurs is used
        pos = -1
        for alt in [a_.strip() for a_ in ins.anchor.split('|||')]:
            pos = -1
            start = 0
            ok_ = True
            for _ in range(ins.nth):
                while True:
                    pos = body.find(alt, start)
                    if pos < 0:
                        ok_ = False
                        break
                    start = pos + 1
                    if bmask[pos]:
                        break
                if not ok_:
                    break
            if ok_:
                break
        if pos < 0:
            raise GenError('%s: insert anchor not found: %r (#%d)' % (fnq, ins.anchor, ins.nth))
        if ins.where == 'inside':
            # at the start of the block that opens after the anchor (a match arm `PAT => {`, an `if … {`)
            j = pos
            while j < len(body) and not (bmask[j] and body[j] == '{'):
                j += 1
            if j >= len(body):
                raise GenError('%s: insert-inside anchor %r opens no block' % (fnq, ins.anchor))
            le = body.find('\n', j)
            edits.append((le + 1, 2, 'insert', tmp, None))
            continue
        if ins.where == 'before':
            ls_ = body.rfind('\n', 0, pos) + 1
            if body[ls_:pos].strip():
                raise GenError('%s: insert anchor %r does not start a line' % (fnq, ins.anchor))
            edits.append((ls_, 2, 'insert', tmp, None))
        else:
            # after the statement: end of the line on which the statement's terminating ';' or '}' at depth 0 occurs
            j = pos
            d = 0
            while j < len(body):
                if bmask[j]:
                    ch = body[j]
                    if ch in '([{':
                        d += 1
                    elif ch in ')]}':
                        d -= 1
                        if d == 0 and ch == '}':
                            # block statement ends (if/while/for/match) unless followed by else
                            rest = body[j + 1:].lstrip()
                            if not rest.startswith('else') and not rest.startswith(';') and not rest.startswith('.') and not rest.startswith('?'):
                                break
                        if d < 0:
                            raise GenError('%s: insert-after anchor %r runs out of its block' % (fnq, ins.anchor))
                    elif d == 0 and ch == ';':
                        break
                j += 1
            le = body.find('\n', j)
            edits.append((le + 1, 2, 'insert', tmp, None))
    if probe:
        p = Out()
        meta['probe_seq'] = meta.get('probe_seq', 0) + 1
        p.add('        proof { if vx_probe(%d) { assert(false); } } // @vacuity-probe' % meta['probe_seq'], {'kind': 'probe', 'fn': fnq, 'probe': fnq + '.entry'})
        edits.append((1, 1, 'insert', p, None))
    # emit body with edits
    edits.sort(key=lambda e: (e[0], e[1]))
    pos = 0
    cur_line = body_line0
    pending = ''

    def body_tag(line):
        # a rewrite may carry `/*@ob NAME | Cxx Cyy*/`
        t = {'kind': 'body', 'fn': fnq, 'src': (relfile, cur_line)}
        mp = re.search(r'/\*@ob (\w+) \| ([A-Z0-9 ]+)\*/', line)
        if mp:
            # a named obligation for what Verus generates on this rewritten line (a closure contract taken from the
            # property statement, a callee precondition)
            t['props'] = mp.group(2).split()
            t['ob'] = '%s.%s' % (fnq, mp.group(1))
            ci[t['ob']] = {'fn': fnq, 'kind': 'rewrite-contract', 'props': t['props'], 'text': 'contract written into a rewrite: ' + ' '.join(line.split())[:220]}
        return t

    def emit_src(txt):
        nonlocal cur_line, pending
        parts = txt.split('\n')
        for idx, part in enumerate(parts):
            if idx < len(parts) - 1:
                out.add(pending + part, body_tag(pending + part))
                pending = ''
                cur_line += 1
            else:
                pending += part

    def flush_pending():
        nonlocal pending
        if pending != '':
            out.add(pending, body_tag(pending))
            pending = ''

    for (p, _o, kind, payload, _x) in edits:
        emit_src(body[pos:p])
        pos = p
        if kind == 'text':
            pending += payload
        else:
            keep = pending
            if keep.strip() == '':
                pending = ''
                for l, t in zip(payload.lines, payload.tags):
                    out.add(l, t)
                pending = keep
            else:
                flush_pending()
                for l, t in zip(payload.lines, payload.tags):
                    out.add(l, t)
    emit_src(body[pos:])
    flush_pending()
    finfo['gen_end'] = len(out.lines)
    meta['functions'].append(finfo)


def copy_item(out, sf, kind, name, mode, meta):
    r = rs.find_top_item(sf.src, sf.mask, kind, name)
    if r is None:
        raise GenError('%s %s not found in %s' % (kind, name, sf.path))
    start, end = r
    text = sf.src[start:end]
    relfile = os.path.relpath(sf.path, meta['repo'])
    line0 = rs.line_of(sf.src, start)
    keep = []
    dropped = 0
    for k, l in enumerate(text.split('\n')):
        s = l.strip()
        if s.startswith('#[') and not re.match(r'^#\[(derive|repr|non_exhaustive)', s):
            dropped += 1
            continue
        if s.startswith('#[derive'):
            # Verus handles Clone/Copy/PartialEq/Eq/Debug derives; others are dropped
            inner = re.match(r'^#\[derive\((.*)\)\]$', s)
            if inner:
                ds = [d.strip() for d in inner.group(1).split(',') if d.strip()]
                ok = [d for d in ds if d in ('Clone', 'Copy', 'PartialEq', 'Eq', 'Debug')]
                if mode == 'noderive':
                    ok = []
                if len(ok) != len(ds):
                    dropped += 1
                if not ok:
                    continue
                body_txt = text[text.find('{') + 1:text.rfind('}')] if '{' in text else ''
                if kind == 'enum' and 'PartialEq' in ok and 'Eq' in ok and '(' not in re.sub(r'//[^\n]*', '', body_txt) and '{' not in body_txt:
                    ok.append('Structural')   # R7: a field-less enum's derived PartialEq IS structural equality; tells Verus so
                l = l[:len(l) - len(l.lstrip())] + '#[derive(%s)]' % ', '.join(ok)
        if s.startswith('///') or s.startswith('//'):
            continue
        l = re.sub(r'\bpub\(crate\)\s+', 'pub ', l)
        if re.match(r'^(struct|enum|const|type|static)\b', l):
            l = 'pub ' + l                            # R7: item visibility normalised
        if kind == 'struct' and re.match(r'^\s+[a-z_][A-Za-z0-9_]*\s*:', l):
            l = re.sub(r'^(\s+)', r'\1pub ', l)   # R7: field visibility normalised (Verus: no opaque fields in specs)
        if kind == 'struct':
            mt = re.match(r'^(pub struct \w+)\(([^()]*)\);\s*$', l)
            if mt:                                    # R7 for a tuple struct: `struct X(u8);` -> `struct X(pub u8);`
                l = '%s(%s);' % (mt.group(1), ', '.join(f if f.strip().startswith('pub') else 'pub ' + f.strip() for f in mt.group(2).split(',')))
        keep.append((l, line0 + k))
    for l, n in keep:
        out.add(l, {'kind': 'item', 'item': '%s %s' % (kind, name), 'src': (relfile, n)})
    meta['items'].append({'item': '%s %s' % (kind, name), 'file': relfile, 'line': line0, 'attr_lines_dropped': dropped})


def generate(unit, repo, probe=False):
    """Returns (text, tags, meta)."""
    meta = {'unit': unit.name, 'repo': repo, 'rewrites': [], 'functions': [], 'clauses': {}, 'items': [], 'probes': [], 'lemmas': [], 'dropped_loop_contracts': [], 'imported_stubs': []}
    for (f, txt) in unit.expects:
        if txt not in SrcFile.get(os.path.join(repo, 'src', f)).src:
            raise GenError('expected text no longer in %s: %r' % (f, txt))
    out = Out()
    for l in unit.crate_attrs:
        out.add(l, {'kind': 'prelude'})
    out.add('#![allow(unused_imports, dead_code, unused_variables, unused_mut, unused_macros, unused_assignments, non_snake_case)]', {'kind': 'prelude'})
    out.add('use vstd::prelude::*;', {'kind': 'prelude'})
    for l in unit.uses:
        out.add(l, {'kind': 'prelude'})
    out.add('verus! {', {'kind': 'prelude'})
    for l in unit.prelude:
        out.add(l, {'kind': 'prelude'})
    if probe:
        # a probe is `if vx_probe(k) { assert(false); }`: it must fail (the point is reachable) and, unlike a bare
        # assert(false), leaves nothing behind that could make later probes of the same function pass
        out.add('pub uninterp spec fn vx_probe(k: int) -> bool;', {'kind': 'prelude-probe'})
        for l in unit.probes:
            out.add(l, {'kind': 'prelude-probe'})
    # group trait impl fns / inherent fns by header, emitting at first occurrence
    groups = {}
    order = []
    for it in unit.items:
        if it[0] == 'fn':
            f = it[1]
            if f.kind == 'inherent':
                key = ('impl', 'impl %s' % f.type)
            elif f.kind == 'traitimpl':
                key = ('impl', 'impl %s for %s' % (f.trait, f.type))
            elif f.kind == 'traitdefault':
                key = ('trait', f.trait)
            else:
                key = ('free', f.name)
            if key not in groups:
                groups[key] = []
                if key[0] != 'trait':
                    order.append(('group', key))
            groups[key].append(f)
        else:
            order.append(('item', it))

    for kind, payload in order:
        if kind == 'item':
            it = payload
            if it[0] == 'copy':
                sf = SrcFile.get(os.path.join(repo, 'src', it[1]))
                copy_item(out, sf, it[2], it[3], it[4] if it[4] == 'derive' else ('noderive' if unit.noderive else it[4]), meta)
            elif it[0] == 'text':
                for l in it[1]:
                    out.add(l, {'kind': 'prelude'})
            elif it[0] == 'lemma':
                lname = 'lemma.' + it[1]
                meta['clauses'][lname] = {'fn': lname, 'kind': 'lemma', 'props': it[2], 'text': 'machinery lemma/driver over the extracted functions'}
                meta['lemmas'].append({'name': lname, 'props': it[2], 'gen_start': len(out.lines) + 1, 'gen_end': len(out.lines) + len(it[3])})
                for l in it[3]:
                    out.add(l, {'kind': 'lemma', 'fn': lname, 'clause': lname, 'props': it[2]})
            elif it[0] == 'trait':
                _, file, tname, block = it
                for l in block:
                    if l.strip() == '//@defaults':
                        for f in groups.get(('trait', tname), []):
                            sf = SrcFile.get(os.path.join(repo, 'src', f.file))
                            gen_fn(out, unit, f, sf, meta, probe)
                    else:
                        out.add(l, {'kind': 'prelude'})
        else:
            key = payload
            fs = groups[key]
            if key[0] == 'free':
                sf = SrcFile.get(os.path.join(repo, 'src', fs[0].file))
                gen_fn(out, unit, fs[0], sf, meta, probe)
            else:
                out.add(key[1] + ' {', {'kind': 'prelude'})
                for l in unit.implspec.get(key[1], []):
                    out.add(l, {'kind': 'prelude'})
                for f in fs:
                    sf = SrcFile.get(os.path.join(repo, 'src', f.file))
                    gen_fn(out, unit, f, sf, meta, probe)
                out.add('}', {'kind': 'prelude'})
    for key in groups:
        if key[0] == 'trait' and not any(it[0] == 'trait' and it[2] == key[1] for it in unit.items):
            raise GenError('default methods of trait %s extracted but no @trait block' % key[1])
    out.add('} // verus!', {'kind': 'prelude'})
    out.add('fn main() {}', {'kind': 'prelude'})
    return out.text(), out.tags, meta
