"""Generate one Verus file per unit from /repo's current working tree + the contract sidecar.

What is verified is the text of the real functions, located by name on every run, copied
unchanged except for the enumerated mechanical rewrites (all logged):

  R1  `-> T` becomes `-> (ret: T)`
  R2  contract splice (requires/ensures/decreases, loop contracts, ghost/proof insertions)
  R3  `|_|` -> `|_e|`
  R4  literal std-call shims listed in the sidecar (`@rewrite`), replacement must name a vx_ shim
  R7  attributes / doc comments above items are not copied; `#[cfg(..)]`-style attribute lines
      inside copied structs are dropped
  R9  `for x in EXPR` -> `for x in NAME: EXPR` when the loop contract names its ghost iterator
"""
import os
import re
import hashlib

import rustscan as rs
from vspec import SpecError


class GenError(Exception):
    """Extraction failed: lost anchor, signature drift, unsupported shape.  -> exit 2."""
    pass


class Out:
    def __init__(self):
        self.lines = []
        self.tags = []

    def add(self, text, tag=None):
        for l in text.split('\n'):
            t = tag
            m = re.search(r'//\s*@props\s+([A-Z0-9 ]+)$', l)
            if m and tag is not None and tag.get('kind') in ('prelude', 'item'):
                t = dict(tag, props=m.group(1).split())     # env precondition tagged with the properties it serves
            self.lines.append(l)
            self.tags.append(t)

    def text(self):
        return '\n'.join(self.lines) + '\n'


class SrcFile:
    cache = {}

    def __init__(self, path):
        self.path = path
        self.src = open(path).read()
        self.mask = rs.code_mask(self.src)
        self.blocks = rs.top_blocks(self.src, self.mask)

    @classmethod
    def get(cls, path):
        if path not in cls.cache:
            cls.cache[path] = SrcFile(path)
        return cls.cache[path]


def locate_fn(sf, f):
    """Returns (sig_start, body_open|None, body_close, header) in sf.src."""
    src, mask = sf.src, sf.mask
    if f.kind == 'free':
        r = rs.find_fn_in(src, mask, f.name, 0, len(src))
        if r is None:
            raise GenError('free fn %s not found in %s' % (f.name, sf.path))
        return r[1], r[2], r[3], None
    cands = []
    for b in sf.blocks:
        h = b.header
        h2 = re.sub(r'^impl\s*<[^>]*>\s*', 'impl ', h)
        if f.kind == 'inherent':
            ok = re.match(r'^impl\s+' + re.escape(f.type) + r'(\s*<[^>]*>)?$', h2) is not None
        elif f.kind == 'traitimpl':
            ok = re.match(r'^impl\s+(\w+::)*' + re.escape(f.trait) + r'(\s*<[^>]*>)?\s+for\s+' + re.escape(f.type) + r'$', h2) is not None
        else:
            ok = re.match(r'^(pub(\([a-z]+\))?\s+)?trait\s+' + re.escape(f.trait) + r'\b', h) is not None
        if ok:
            cands.append(b)
    # also `pub trait` blocks begin at 'trait' keyword; top_blocks starts at the keyword so header has no 'pub'
    for b in cands:
        r = rs.find_fn_in(src, mask, f.name, b.bopen + 1, b.bclose)
        if r is not None:
            return r[1], r[2], r[3], b.header
    raise GenError('fn %s not found in %s (%d candidate blocks)' % (f.qual, sf.path, len(cands)))


INSERT_OK = re.compile(r'^\s*(proof\s*\{|assert\s*\(|assert\s+forall|let\s+ghost\s|let\s+tracked\s|broadcast\s+use|reveal)')


def check_insert_is_ghost(ins, where):
    txt = '\n'.join(ins.text).strip()
    if not INSERT_OK.match(txt):
        raise GenError('%s: inserted text must be proof/ghost code: %r' % (where, txt[:60]))
    # every top-level statement of the insertion must itself be ghost: cheap check = balanced and
    # contains no exec macros
    if re.search(r'\bassert!\s*\(|\bunreachable!|\bpanic!', txt):
        raise GenError('%s: exec macro in inserted proof text' % where)


def apply_rewrites(text, required, optional, log, fnq):
    mask = rs.code_mask(text)
    for (lst, must) in ((required, False), (optional, False)):   # anchors that vanished are skipped: the verifier then judges the code as it is
        for (frm, to, _allf) in lst:
            cnt = 0
            start = 0
            if _allf == 're':
                # regex rewrite (DOTALL); every match must start in code
                pat = re.compile(frm, re.S)
                pos = 0
                while True:
                    mt = pat.search(text, pos)
                    if not mt:
                        break
                    if not mask[mt.start()]:
                        pos = mt.start() + 1
                        continue
                    rep = mt.expand(to)
                    if rep.count('\n') != mt.group(0).count('\n'):
                        rep = rep + '\n' * (mt.group(0).count('\n') - rep.count('\n'))
                    text = text[:mt.start()] + rep + text[mt.end():]
                    mask = rs.code_mask(text)
                    pos = mt.start() + len(rep)
                    cnt += 1
                if cnt == 0:
                    if must:
                        raise GenError('%s: rewrite_re anchor not found: %r' % (fnq, frm))
                    continue
                log.append({'fn': fnq, 'rule': 'R4', 'from': 're:' + frm, 'to': to, 'count': cnt})
                continue
            while True:
                k = text.find(frm, start)
                if k < 0:
                    break
                if not mask[k]:
                    start = k + 1
                    continue
                text = text[:k] + to + text[k + len(frm):]
                mask = rs.code_mask(text)
                cnt += 1
                start = k + len(to)
            if cnt == 0:
                if must:
                    raise GenError('%s: rewrite anchor not found: %r' % (fnq, frm))
                continue
            log.append({'fn': fnq, 'rule': 'R4', 'from': frm, 'to': to, 'count': cnt})
    # R3
    n3 = text.count('|_|')
    if n3:
        text = text.replace('|_|', '|_e|')
        log.append({'fn': fnq, 'rule': 'R3', 'from': '|_|', 'to': '|_e|', 'count': n3})
    return text


def clause_lines(out, clauses, fnq, kind, indent, default_props, clause_index, loop=None):
    for c in clauses:
        cid = '%s.%s' % (fnq, c.id) if loop is None else '%s.loop%d.%s' % (fnq, loop, c.id)
        props = c.props if c.props is not None else default_props
        tag = {'kind': kind, 'fn': fnq, 'clause': cid, 'props': props}
        clause_index[cid] = {'fn': fnq, 'kind': kind, 'props': props, 'text': ' '.join(c.text.split())}
        body = c.text.rstrip()
        if body.endswith(','):
            body = body[:-1]
        first = True
        for l in body.split('\n'):
            out.add(indent + l.strip() if first else indent + '    ' + l.strip(), tag)
            first = False
        out.lines[-1] += ','


def gen_fn(out, unit, f, sf, meta, probe):
    src = sf.src
    sig_start, bopen, bclose, header = locate_fn(sf, f)
    fnq = f.qual
    relfile = os.path.relpath(sf.path, meta['repo'])
    src_line0 = rs.line_of(src, sig_start)
    whole = src[sig_start:bclose + 1]
    sig_norm = rs.norm_ws(src[sig_start:(bopen if bopen is not None else bclose)])
    whole = apply_rewrites(whole, f.rewrites, unit.rewrites, meta['rewrites'], f.qual)
    if bopen is not None:
        wmask = rs.code_mask(whole)
        pd0 = 0
        nb = -1
        for k, ch in enumerate(whole):
            if not wmask[k]:
                continue
            if ch in '([':
                pd0 += 1
            elif ch in ')]':
                pd0 -= 1
            elif pd0 == 0 and ch == '{':
                nb = k
                break
        sig_text = whole[:nb]
        new_body = whole[nb:]
    else:
        sig_text = whole[:-1]
        new_body = None
    if f.sig_re is not None and not re.search(f.sig_re, sig_norm):
        raise GenError('%s: signature drift: %r does not match %r' % (fnq, sig_norm, f.sig_re))
    if bopen is None and not f.nobody:
        raise GenError('%s: has no body' % fnq)
    # R1: name the result
    sig = sig_text.rstrip()
    sig_mask = rs.code_mask(sig)
    # find '->' at paren depth 0
    pd = 0
    arrow = -1
    for k, ch in enumerate(sig):
        if not sig_mask[k]:
            continue
        if ch in '([':
            pd += 1
        elif ch in ')]':
            pd -= 1
        elif pd == 0 and ch == '-' and sig[k:k + 2] == '->':
            arrow = k
    where_clause = ''
    if arrow >= 0:
        ret_ty = sig[arrow + 2:].strip()
        mw = re.search(r'\bwhere\b', ret_ty)
        if mw:
            where_clause = ' ' + ret_ty[mw.start():]
            ret_ty = ret_ty[:mw.start()].strip()
        sig = sig[:arrow] + '-> (ret: %s)%s' % (ret_ty, where_clause)
        meta['rewrites'].append({'fn': fnq, 'rule': 'R1', 'from': '-> ' + ret_ty, 'to': '-> (ret: %s)' % ret_ty, 'count': 1})
    sig = re.sub(r'^(\s*)pub\(crate\)\s+', r'\1pub ', sig)
    default_props = f.props
    finfo = {'fn': fnq, 'file': relfile, 'line': src_line0, 'props': f.props, 'gen_start': len(out.lines) + 1,
             'sha': hashlib.sha256(src[sig_start:bclose + 1].encode()).hexdigest()[:16], 'loops': []}
    for a in f.extra_attrs:
        out.add('    ' + a, {'kind': 'attr', 'fn': fnq})
    k = 0
    for l in sig.split('\n'):
        out.add(l, {'kind': 'sig', 'fn': fnq, 'src': (relfile, src_line0 + k)})
        k += 1
    ci = meta['clauses']
    if f.requires:
        out.add('        requires', {'kind': 'kw', 'fn': fnq})
        clause_lines(out, f.requires, fnq, 'requires', '            ', default_props, ci)
    if f.ensures:
        out.add('        ensures', {'kind': 'kw', 'fn': fnq})
        clause_lines(out, f.ensures, fnq, 'ensures', '            ', default_props, ci)
    if f.decreases:
        out.add('        decreases %s,' % f.decreases, {'kind': 'fn-decreases', 'fn': fnq, 'clause': fnq + '.decreases', 'props': default_props})
        ci[fnq + '.decreases'] = {'fn': fnq, 'kind': 'decreases', 'props': default_props, 'text': f.decreases}
    if f.nobody:
        out.add('    ;', {'kind': 'sig', 'fn': fnq})
        finfo['gen_end'] = len(out.lines)
        meta['functions'].append(finfo)
        return
    body = new_body
    body_line0 = rs.line_of(src, bopen)
    bmask = rs.code_mask(body)
    # collect edits as (position, text, tag) to apply while emitting
    edits = []   # (pos, order, 'insert'|'replace', text lines, tag, replace_end)
    loops = rs.find_loops(body, bmask)
    used = set()
    for ls in f.loops:
        # locate the loop: by header text first (robust against loops added/removed before it), else by ordinal
        cand = None
        if ls.header_re:
            hits = [k for k, (kw_, lb_) in enumerate(loops) if re.search(ls.header_re, rs.norm_ws(body[kw_:lb_]))]
            same = [k for k in hits if k == ls.ordinal - 1]
            if same:
                cand = same[0]
            elif len(hits) == 1:
                cand = hits[0]
        elif 1 <= ls.ordinal <= len(loops):
            cand = ls.ordinal - 1
        if cand is None or (cand + 1) in used:
            # the contracted loop is gone: its contract is dropped and the function's own
            # postconditions decide (an un-contracted loop that remains makes Verus stop -> exit 2)
            meta['dropped_loop_contracts'].append({'fn': fnq, 'loop': ls.ordinal, 'header_re': ls.header_re})
            continue
        kw, lb = loops[cand]
        hdr = rs.norm_ws(body[kw:lb])
        ls_ord_eff = cand + 1
        used.add(ls_ord_eff)
        finfo['loops'].append({'ordinal': ls.ordinal, 'header': hdr, 'src_line': body_line0 + body.count('\n', 0, kw)})
        tmp = Out()
        if ls.invariant_except_break:
            tmp.add('            invariant_except_break', {'kind': 'kw', 'fn': fnq})
            clause_lines(tmp, ls.invariant_except_break, fnq, 'invariant', '                ', default_props, ci, loop=ls.ordinal)
        if ls.invariant:
            tmp.add('            invariant', {'kind': 'kw', 'fn': fnq})
            clause_lines(tmp, ls.invariant, fnq, 'invariant', '                ', default_props, ci, loop=ls.ordinal)
        if ls.ensures:
            tmp.add('            ensures', {'kind': 'kw', 'fn': fnq})
            clause_lines(tmp, ls.ensures, fnq, 'loop-ensures', '                ', default_props, ci, loop=ls.ordinal)
        if ls.decreases:
            cid = '%s.loop%d.decreases' % (fnq, ls.ordinal)
            tmp.add('            decreases %s,' % ls.decreases, {'kind': 'decreases', 'fn': fnq, 'clause': cid, 'props': default_props})
            ci[cid] = {'fn': fnq, 'kind': 'decreases', 'props': default_props, 'text': ls.decreases}
        edits.append((lb, 0, 'insert', tmp, None))
        if probe:
            p = Out()
            p.add('            proof { assert(false); } // @vacuity-probe', {'kind': 'probe', 'fn': fnq, 'probe': '%s.loop%d' % (fnq, ls.ordinal)})
            edits.append((lb + 1, 0, 'insert', p, None))
        if ls.iter:
            # R9: name the ghost iterator
            hdr_txt = body[kw:lb]
            m = re.match(r'^(for\s+.*?\s+in\s+)(.*)$', hdr_txt, re.S)
            if not m:
                raise GenError('%s: loop %d is not a for loop' % (fnq, ls.ordinal))
            edits.append((kw + len(m.group(1)), 1, 'text', ls.iter + ': ', None))
            meta['rewrites'].append({'fn': fnq, 'rule': 'R9', 'from': rs.norm_ws(hdr_txt), 'to': 'for .. in %s: ..' % ls.iter, 'count': 1})
    for hk, ins in enumerate(f.inserts):
        check_insert_is_ghost(ins, fnq)
        tmp = Out()
        hid = '%s.hint%d' % (fnq, hk + 1)
        hprops = ins.props if ins.props is not None else default_props
        if any(re.search(r'\bassert\b', l) for l in ins.text):
            ci[hid] = {'fn': fnq, 'kind': 'proof', 'props': hprops, 'text': 'inserted ghost assertion(s): ' + ' '.join(' '.join(ins.text).split())[:200]}
        for l in ins.text:
            tmp.add('        ' + l.rstrip(), {'kind': 'proof', 'fn': fnq, 'clause': hid, 'props': hprops})
        if ins.where == 'start':
            edits.append((1, 2, 'insert', tmp, None))
            continue
        if ins.where == 'end':
            edits.append((len(body) - 1, 2, 'insert', tmp, None))
            continue
        pos = -1
        start = 0
        for _ in range(ins.nth):
            while True:
                pos = body.find(ins.anchor, start)
                if pos < 0:
                    raise GenError('%s: insert anchor not found: %r (#%d)' % (fnq, ins.anchor, ins.nth))
                start = pos + 1
                if bmask[pos]:
                    break
        if ins.where == 'before':
            ls_ = body.rfind('\n', 0, pos) + 1
            if body[ls_:pos].strip():
                raise GenError('%s: insert anchor %r does not start a line' % (fnq, ins.anchor))
            edits.append((ls_, 2, 'insert', tmp, None))
        else:
            # after the statement: end of the line on which the statement's terminating ';' or '}' at depth 0 occurs
            j = pos
            d = 0
            while j < len(body):
                if bmask[j]:
                    ch = body[j]
                    if ch in '([{':
                        d += 1
                    elif ch in ')]}':
                        d -= 1
                        if d == 0 and ch == '}':
                            # block statement ends (if/while/for/match) unless followed by else
                            rest = body[j + 1:].lstrip()
                            if not rest.startswith('else') and not rest.startswith(';') and not rest.startswith('.') and not rest.startswith('?'):
                                break
                        if d < 0:
                            raise GenError('%s: insert-after anchor %r runs out of its block' % (fnq, ins.anchor))
                    elif d == 0 and ch == ';':
                        break
                j += 1
            le = body.find('\n', j)
            edits.append((le + 1, 2, 'insert', tmp, None))
    if probe:
        p = Out()
        p.add('        proof { assert(false); } // @vacuity-probe', {'kind': 'probe', 'fn': fnq, 'probe': fnq + '.entry'})
        edits.append((1, 1, 'insert', p, None))
    # emit body with edits
    edits.sort(key=lambda e: (e[0], e[1]))
    pos = 0
    cur_line = body_line0
    pending = ''

    def emit_src(txt):
        nonlocal cur_line, pending
        parts = txt.split('\n')
        for idx, part in enumerate(parts):
            if idx < len(parts) - 1:
                out.add(pending + part, {'kind': 'body', 'fn': fnq, 'src': (relfile, cur_line)})
                pending = ''
                cur_line += 1
            else:
                pending += part

    def flush_pending():
        nonlocal pending
        if pending != '':
            out.add(pending, {'kind': 'body', 'fn': fnq, 'src': (relfile, cur_line)})
            pending = ''

    for (p, _o, kind, payload, _x) in edits:
        emit_src(body[pos:p])
        pos = p
        if kind == 'text':
            pending += payload
        else:
            keep = pending
            if keep.strip() == '':
                pending = ''
                for l, t in zip(payload.lines, payload.tags):
                    out.add(l, t)
                pending = keep
            else:
                flush_pending()
                for l, t in zip(payload.lines, payload.tags):
                    out.add(l, t)
    emit_src(body[pos:])
    flush_pending()
    finfo['gen_end'] = len(out.lines)
    meta['functions'].append(finfo)


def copy_item(out, sf, kind, name, mode, meta):
    r = rs.find_top_item(sf.src, sf.mask, kind, name)
    if r is None:
        raise GenError('%s %s not found in %s' % (kind, name, sf.path))
    start, end = r
    text = sf.src[start:end]
    relfile = os.path.relpath(sf.path, meta['repo'])
    line0 = rs.line_of(sf.src, start)
    keep = []
    dropped = 0
    for k, l in enumerate(text.split('\n')):
        s = l.strip()
        if s.startswith('#[') and not re.match(r'^#\[(derive|repr|non_exhaustive)', s):
            dropped += 1
            continue
        if s.startswith('#[derive'):
            # Verus handles Clone/Copy/PartialEq/Eq/Debug derives; others are dropped
            inner = re.match(r'^#\[derive\((.*)\)\]$', s)
            if inner:
                ds = [d.strip() for d in inner.group(1).split(',') if d.strip()]
                ok = [d for d in ds if d in ('Clone', 'Copy', 'PartialEq', 'Eq', 'Debug')]
                if mode == 'noderive':
                    ok = []
                if len(ok) != len(ds):
                    dropped += 1
                if not ok:
                    continue
                body_txt = text[text.find('{') + 1:text.rfind('}')] if '{' in text else ''
                if kind == 'enum' and 'PartialEq' in ok and 'Eq' in ok and '(' not in re.sub(r'//[^\n]*', '', body_txt) and '{' not in body_txt:
                    ok.append('Structural')   # R7: a field-less enum's derived PartialEq IS structural equality; tells Verus so
                l = l[:len(l) - len(l.lstrip())] + '#[derive(%s)]' % ', '.join(ok)
        if s.startswith('///') or s.startswith('//'):
            continue
        l = re.sub(r'\bpub\(crate\)\s+', 'pub ', l)
        if re.match(r'^(struct|enum|const|type|static)\b', l):
            l = 'pub ' + l                            # R7: item visibility normalised
        if kind == 'struct' and re.match(r'^\s+[a-z_][A-Za-z0-9_]*\s*:', l):
            l = re.sub(r'^(\s+)', r'\1pub ', l)   # R7: field visibility normalised (Verus: no opaque fields in specs)
        keep.append((l, line0 + k))
    for l, n in keep:
        out.add(l, {'kind': 'item', 'item': '%s %s' % (kind, name), 'src': (relfile, n)})
    meta['items'].append({'item': '%s %s' % (kind, name), 'file': relfile, 'line': line0, 'attr_lines_dropped': dropped})


def generate(unit, repo, probe=False):
    """Returns (text, tags, meta)."""
    meta = {'unit': unit.name, 'repo': repo, 'rewrites': [], 'functions': [], 'clauses': {}, 'items': [], 'probes': [], 'lemmas': [], 'dropped_loop_contracts': []}
    for (f, txt) in unit.expects:
        if txt not in SrcFile.get(os.path.join(repo, 'src', f)).src:
            raise GenError('expected text no longer in %s: %r' % (f, txt))
    out = Out()
    for l in unit.crate_attrs:
        out.add(l, {'kind': 'prelude'})
    out.add('#![allow(unused_imports, dead_code, unused_variables, unused_mut, unused_macros, unused_assignments, non_snake_case)]', {'kind': 'prelude'})
    out.add('use vstd::prelude::*;', {'kind': 'prelude'})
    for l in unit.uses:
        out.add(l, {'kind': 'prelude'})
    out.add('verus! {', {'kind': 'prelude'})
    for l in unit.prelude:
        out.add(l, {'kind': 'prelude'})
    if probe:
        for l in unit.probes:
            out.add(l, {'kind': 'prelude-probe'})
    # group trait impl fns / inherent fns by header, emitting at first occurrence
    groups = {}
    order = []
    for it in unit.items:
        if it[0] == 'fn':
            f = it[1]
            if f.kind == 'inherent':
                key = ('impl', 'impl %s' % f.type)
            elif f.kind == 'traitimpl':
                key = ('impl', 'impl %s for %s' % (f.trait, f.type))
            elif f.kind == 'traitdefault':
                key = ('trait', f.trait)
            else:
                key = ('free', f.name)
            if key not in groups:
                groups[key] = []
                if key[0] != 'trait':
                    order.append(('group', key))
            groups[key].append(f)
        else:
            order.append(('item', it))

    for kind, payload in order:
        if kind == 'item':
            it = payload
            if it[0] == 'copy':
                sf = SrcFile.get(os.path.join(repo, 'src', it[1]))
                copy_item(out, sf, it[2], it[3], 'noderive' if unit.noderive else it[4], meta)
            elif it[0] == 'text':
                for l in it[1]:
                    out.add(l, {'kind': 'prelude'})
            elif it[0] == 'lemma':
                lname = 'lemma.' + it[1]
                meta['clauses'][lname] = {'fn': lname, 'kind': 'lemma', 'props': it[2], 'text': 'machinery lemma/driver over the extracted functions'}
                meta['lemmas'].append({'name': lname, 'props': it[2], 'gen_start': len(out.lines) + 1, 'gen_end': len(out.lines) + len(it[3])})
                for l in it[3]:
                    out.add(l, {'kind': 'lemma', 'fn': lname, 'clause': lname, 'props': it[2]})
            elif it[0] == 'trait':
                _, file, tname, block = it
                for l in block:
                    if l.strip() == '//@defaults':
                        for f in groups.get(('trait', tname), []):
                            sf = SrcFile.get(os.path.join(repo, 'src', f.file))
                            gen_fn(out, unit, f, sf, meta, probe)
                    else:
                        out.add(l, {'kind': 'prelude'})
        else:
            key = payload
            fs = groups[key]
            if key[0] == 'free':
                sf = SrcFile.get(os.path.join(repo, 'src', fs[0].file))
                gen_fn(out, unit, fs[0], sf, meta, probe)
            else:
                out.add(key[1] + ' {', {'kind': 'prelude'})
                for l in unit.implspec.get(key[1], []):
                    out.add(l, {'kind': 'prelude'})
                for f in fs:
                    sf = SrcFile.get(os.path.join(repo, 'src', f.file))
                    gen_fn(out, unit, f, sf, meta, probe)
                out.add('}', {'kind': 'prelude'})
    for key in groups:
        if key[0] == 'trait' and not any(it[0] == 'trait' and it[2] == key[1] for it in unit.items):
            raise GenError('default methods of trait %s extracted but no @trait block' % key[1])
    out.add('} // verus!', {'kind': 'prelude'})
    out.add('fn main() {}', {'kind': 'prelude'})
    return out.text(), out.tags, meta
