#!/usr/bin/env python3
"""Write MANIFEST.json from contracts/properties.json (single source for claims / not-applicable)."""
import json, os
ROOT = os.path.dirname(os.path.dirname(os.path.abspath(__file__)))
cfg = json.load(open(os.path.join(ROOT, 'contracts', 'properties.json')))
props = [json.loads(l)['id'] for l in open(os.path.join(ROOT, 'properties.jsonl')) if l.strip()]
checks = []
for pid in props:
    if pid not in cfg['claimed']:
        continue
    pc = cfg['claimed'][pid]
    checks.append({
        'property_id': pid,
        'quick_cmd': './check %s --tier quick' % pid,
        'thorough_cmd': './check %s --tier thorough' % pid,
        'evidence_file': 'evidence/%s.json' % pid,
        'replay_cmd_template': './check %s --replay {path}' % pid,
        'engine': 'vx',
        'level_claimed': {'category': pc.get('level', 'proof'), 'text': pc['claim'], 'design_ref': pc.get('design_ref', 'DESIGN.md section 7 / ' + pid)},
        'level_note': pc['note'],
        'technique': pc['technique'],
    })
na = [{'property_id': pid, 'reason': cfg['not_applicable'][pid]} for pid in props if pid in cfg.get('not_applicable', {})]
for pid in props:
    assert (pid in cfg['claimed']) != (pid in cfg.get('not_applicable', {})), pid
man = {
    'version': 1,
    'setup_cmd': 'true',
    'hooks': {
        'guard': 'kani',
        'enable': 'no hook is committed to /repo: Verus works on functions extracted from the working tree on every run; Kani harness modules and contract attributes are injected under #[cfg(kani)] into a throw-away copy of /repo by tools/run_kani.py',
        'baseline_off_cmd': 'cd /repo && cargo test --workspace --no-fail-fast --offline',
        'source_commits': [],
        'add_only': True,
    },
    'engines': [{'name': 'vx', 'path': 'tools/vx.py', 'serves_properties': [c['property_id'] for c in checks],
                 'kind_free_text': 'contract-based deductive verification: Verus on mechanically extracted real functions with sidecar contracts; Kani (CBMC) for loop-free integer functions and counterexamples'}],
    'checks': checks,
    'not_applicable': na,
    'notes': cfg.get('notes', ''),
}
json.dump(man, open(os.path.join(ROOT, 'MANIFEST.json'), 'w'), indent=1)
print('MANIFEST.json: %d checks, %d not applicable' % (len(checks), len(na)))
