#!/bin/bash
# usage: reconfirm_suite.sh <seed-id> <test-name...>  : re-run named existing tests with the seed applied (flaky-under-load tests)
id=$1; shift
wt=/tmp/reconf_$id; git -C /repo worktree add --detach $wt HEAD -q 2>/dev/null; cd $wt || exit 3
cp /repo/Cargo.lock . 2>/dev/null; export CARGO_TARGET_DIR=/repo/target RUST_BACKTRACE=0
git apply /verif/seeded/$id/patch.diff || exit 3
for t in "$@"; do for k in 1 2 3; do cargo test --offline --lib $t -- --test-threads 1 2>&1 | grep -E "^test .* (ok|FAILED)$" | sed "s/^/reconfirm $id run $k: /" >> /verif/seeded/$id/confirm.log; done; done
cd /; git -C /repo worktree remove --force $wt; tail -6 /verif/seeded/$id/confirm.log
