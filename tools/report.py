"""Property-level verdicts, evidence files, baseline and known-finding handling."""
import os
import re
import sys
import json
import time
import concurrent.futures as cf

import vx

ROOT = vx.ROOT


def load_props():
    out = {}
    for l in open(os.path.join(ROOT, 'properties.jsonl')):
        l = l.strip()
        if l:
            p = json.loads(l)
            out[p['id']] = p
    return out


def load_propcfg():
    return json.load(open(os.path.join(ROOT, 'contracts', 'properties.json')))


def _fn_norm(x):
    """'<A as T>::m', 'T for A::m' -> 'A::m'; 'trait T::m' -> 'T::m'; '::f' -> 'f'"""
    x = x.strip()
    m = re.match(r'^<(\w+) as \w+>::(\w+)$', x) or re.match(r'^\w+ for (\w+)::(\w+)$', x)
    if m:
        return m.group(1) + '::' + m.group(2)
    x = re.sub(r'^trait\s+', '', x)
    return x.lstrip(':')


def update_baseline(units, run_unit, obligations_of):
    base = {}
    bad = False
    with cf.ThreadPoolExecutor(8) as ex:
        results = list(ex.map(lambda u: run_unit(u), units.values()))
    known = vx.load_known()
    for r in results:
        if r['meta'] is None or r['machinery']:
            print('unit %s: machinery errors, baseline not updated' % r['unit'])
            for m in r['machinery']:
                print('   ', m['message'])
                print(m['rendered'][:1500])
            bad = True
            continue
        obs = obligations_of(r)
        failed = {}
        for f in r['failures']:
            failed.setdefault(f['obligation'], []).append(f)
        if r['vacuous']:
            print('unit %s: vacuous probes %s' % (r['unit'], r['vacuous']))
            bad = True
        entry = {}
        for oid, o in sorted(obs.items()):
            if oid in failed:
                # an obligation failing on the baseline tree is only tolerated when every failure is a listed finding
                unlisted = [f for f in failed[oid] if not any(vx.match_known(f, known, p) for p in (f['props'] or ['?']))]
                if unlisted:
                    print('unit %s: obligation %s FAILS on this tree and is not a known finding' % (r['unit'], oid))
                    for f in unlisted:
                        print('    %s %s %s' % (f['message'], f['src'], f['construct']))
                    bad = True
                entry[oid] = {'status': 'known-finding', 'props': o['props']}
            else:
                entry[oid] = {'status': 'discharged', 'props': o['props']}
        base[r['unit']] = entry
        print('unit %-10s %3d obligations, %d failing-as-known, wall %.1fs' % (r['unit'], len(entry), sum(1 for e in entry.values() if e['status'] != 'discharged'), r.get('wall', 0)))
    if bad:
        print('baseline NOT written')
        return 2
    os.makedirs(os.path.join(ROOT, 'baseline'), exist_ok=True)
    json.dump(base, open(os.path.join(ROOT, 'baseline', 'obligations.json'), 'w'), indent=1, sort_keys=True)
    print('baseline written')
    return 0


def check_property(prop, tier, seed, units, no_kani=False, verbose=False):
    t0 = time.time()
    cfg = load_propcfg()
    if prop not in cfg['claimed']:
        na = cfg.get('not_applicable', {}).get(prop)
        print('property %s is not claimed by this framework%s' % (prop, ': ' + na if na else ''))
        return 2
    pc = cfg['claimed'][prop]
    my_units = [units[n] for n in pc['units'] if n in units]
    missing = [n for n in pc['units'] if n not in units]
    baseline = vx.load_baseline() or {}
    known = vx.load_known()
    undecided = []
    if missing:
        undecided.append('unit(s) missing: %s' % missing)
    with cf.ThreadPoolExecutor(max(1, len(my_units))) as ex:
        results = list(ex.map(lambda u: vx.run_unit(u), my_units))
    # ---- Kani side: the property's own harnesses, plus (on demand) the harnesses paired with any
    # function whose Verus obligations failed, to obtain a counterexample that is replayed on the real code
    kani_res = None
    kani_cfg = pc.get('kani', {})
    harnesses = list(kani_cfg.get('quick', []))
    if tier == 'thorough':
        harnesses += list(kani_cfg.get('thorough', []))
    on_demand = []
    if not no_kani:
        import run_kani
        reg = run_kani.registry()['harnesses']
        failing_fns = set()
        for r in results:
            for f in r.get('failures', []):
                if prop in (f.get('props') or []) and f.get('fn'):
                    failing_fns.add(f['fn'].replace('<', '').replace('>', '').split(' as ')[-1])
        for hn, h in reg.items():
            if hn not in harnesses and any(t in failing_fns or ('DnsRecordExt::' + t.split('::')[-1]) in failing_fns for t in h['targets']):
                on_demand.append(hn)
        if harnesses or on_demand:
            kani_res = run_kani.run(harnesses + on_demand, prop, tier)
    violations = []
    known_hits = []
    obligations = {}
    discharged = 0
    functions = []
    trusted = set()
    rewrites = []
    smt_ms = 0
    backends_verus = []
    samples = []
    n_probes = 0
    cmds = []
    for r in results:
        if r['meta'] is None or r['machinery']:
            for m in r['machinery']:
                undecided.append('unit %s: %s' % (r['unit'], m['message']))
                if verbose or True:
                    sys.stderr.write('[undecided] unit %s: %s\n%s\n' % (r['unit'], m['message'], m['rendered'][:3000]))
            if r['meta'] is None:
                continue
        if r['vacuous']:
            undecided.append('unit %s: vacuity probes that did not fail: %s' % (r['unit'], r['vacuous']))
        n_probes += r['n_probes']
        cmds.append(r.get('cmd', ''))
        obs = vx.obligations_of(r)
        mine = {oid: o for oid, o in obs.items() if prop in (o['props'] or [])}
        failed = {}
        for f in r['failures']:
            if prop in (f['props'] or []):
                failed.setdefault(f['obligation'], []).append(f)
        base_u = baseline.get(r['unit'], {})
        for oid, o in sorted(mine.items()):
            fl = failed.get(oid, [])
            real = []
            for f in fl:
                k = vx.match_known(f, known, prop)
                if k:
                    known_hits.append((k, f))
                else:
                    real.append(f)
            if fl and not real:
                continue            # failing only as listed known finding(s): reported separately, not counted
            obligations[r['unit'] + ':' + oid] = o
            if real:
                if oid not in base_u:
                    undecided.append('unit %s: obligation %s fails but is not in baseline/obligations.json (run ./check --update-baseline on the unchanged tree)' % (r['unit'], oid))
                    continue
                for f in real:
                    violations.append((r['unit'], f))
            else:
                discharged += 1
                if oid not in base_u:
                    undecided.append('unit %s: obligation %s is not in baseline/obligations.json' % (r['unit'], oid))
        for oid in failed:
            if oid not in mine:
                undecided.append('unit %s: failure attributed to unknown obligation %s' % (r['unit'], oid))
        # baseline obligations tagged with this property must still exist (lost contract = undecided)
        for oid, b in base_u.items():
            if prop in (b.get('props') or []) and oid not in obs:
                undecided.append('unit %s: baseline obligation %s no longer generated' % (r['unit'], oid))
        bd = r.get('breakdown', {})
        for fi in r['meta']['functions']:
            if prop in fi['props']:
                key = next((k for k in bd if k.split('::', 1)[-1].replace('impl&%', '') and k.endswith('::' + fi['fn'].split('::')[-1].replace('>', ''))), None)
                functions.append({'fn': fi['fn'], 'at': '%s:%d' % (fi['file'], fi['line']), 'unit': r['unit'], 'text_sha256_16': fi['sha'],
                                  'smt_ms': bd.get(key, {}).get('ms') if key else None})
        for t in r.get('trusted', []):
            trusted.add('%s: %s' % (r['unit'], t))
        rewrites.extend([dict(x, unit=r['unit']) for x in r['meta']['rewrites'] if any(fi['fn'] == x['fn'] and prop in fi['props'] for fi in r['meta']['functions'])])
        smt_ms += r.get('smt_ms', 0) or 0
        backends_verus.append({'unit': r['unit'], 'verus_results': r.get('verus_results'), 'smt_run_ms': r.get('smt_ms'), 'wall_s': round(r.get('wall', 0), 2),
                               'probe_wall_s': round(r.get('probe_wall', 0), 2), 'generated_file_sha256_16': r.get('gen_sha')})
    # samples: a few obligations of this property written out
    for key, o in list(obligations.items())[:12]:
        samples.append({'obligation': key, 'kind': o['kind'], 'clause': o['text'][:300]})
    kani_ev = None
    kani_notes = []
    if kani_res is not None:
        kani_ev = kani_res['evidence']
        for h in kani_res['harnesses']:
            hid = 'kani:' + h['name']
            if h['status'] == 'FAILED' and h.get('replay'):
                # attach the replayed counterexample to the Verus violations of the same function(s)
                tg = set(h['target'].split(', '))
                for unit, f in violations:
                    fn = (f.get('fn') or '')
                    if fn in tg or ('trait ' + fn) in tg or _fn_norm(fn) in set(_fn_norm(t) for t in tg):
                        f['replay_extra'] = (f.get('replay_extra') or '') + 'Kani harness %s, counterexample (%s)\n%s\n' % (h['name'], h.get('counterexample'), h['replay'])
            if h['status'] == 'SUCCESSFUL':
                if h.get('bounded'):
                    continue
                obligations[hid] = {'props': [prop], 'kind': 'kani', 'fn': h['name'], 'text': h.get('what', '')}
                discharged += 1
            elif h['status'] == 'FAILED':
                f = {'obligation': hid, 'fn': h.get('target'), 'props': [prop], 'message': 'Kani harness FAILED: ' + '; '.join(h.get('failed_checks', [])[:5]),
                     'rendered': h.get('output_tail', ''), 'src': h.get('target_src'), 'construct': None, 'detail': h.get('counterexample'), 'replay_extra': h.get('replay', '')}
                k = vx.match_known(f, known, prop)
                if k:
                    known_hits.append((k, f))
                else:
                    obligations[hid] = {'props': [prop], 'kind': 'kani', 'fn': h['name'], 'text': h.get('what', '')}
                    violations.append(('kani', f))
            else:
                # Kani is the cross-check / counterexample source; Verus is the decider.  A harness that
                # times out or hits an unsupported construct is recorded, never turned into a verdict.
                kani_notes.append('kani harness %s: %s' % (h['name'], h['status']))
        for m in kani_res.get('machinery', []):
            undecided.append('kani: ' + m)
    exec_ev = None
    # bounded stand-ins by exhaustive execution: thorough tier; a property may ask for one of them on every change (`exec_quick`)
    exec_names = (kani_cfg.get('exec') or []) if tier == 'thorough' else (kani_cfg.get('exec_quick') or [])
    if exec_names and not no_kani:
        import run_kani
        exec_ev = run_kani.run_exec(exec_names)
        for h in exec_ev:
            if h['status'] != 'SUCCESSFUL':
                f = {'obligation': 'exec:' + h['name'], 'fn': h['target'], 'props': [prop], 'message': 'bounded exhaustive execution FAILED', 'rendered': h['output_tail'],
                     'src': None, 'construct': None, 'detail': h['bounded'], 'replay_extra': 'the failing case is printed by the assertion message above (executed on the real code)\n' + h['output_tail']}
                obligations['exec:' + h['name']] = {'props': [prop], 'kind': 'exec-bounded', 'fn': h['name'], 'text': h['what']}
                violations.append(('exec', f))
    selftest_ev = None
    if tier == 'thorough' and not violations and vx.REPO == '/repo':
        # mutation regression of the contracts themselves (scratch copies, never /repo)
        import selftest
        selftest_ev = selftest.run(prop)
        for x in selftest_ev['survived']:
            undecided.append('selftest: stored mutant %s is no longer detected (expected %s)' % (x['id'], x.get('expected')))
        for x in selftest_ev['false_alarm']:
            undecided.append('selftest: harmless edit %s raises %s' % (x['id'], x['fails']))
    if not obligations and not violations:
        undecided.append('zero obligations generated for %s' % prop)
    # ---- output
    lines = []
    seen_k = set()
    for k, f in known_hits:
        kid = (k.get('obligation'), k.get('construct'), k.get('detail'))
        if kid in seen_k:
            continue
        seen_k.add(kid)
        lines.append('KNOWN-FINDING: property=%s %s' % (prop, k['what']))
    vcount = 0
    seen_v = set()
    for unit, f in violations:
        key = (f['obligation'], f.get('src'), f.get('detail'))
        if key in seen_v:
            continue
        seen_v.add(key)
        vcount += 1
        extra = f.get('replay_extra') or ''
        has_input = bool(extra)
        if not has_input:
            # try the paired Kani harness for a counterexample
            pass
        p = vx.write_replay(prop, f, unit, vcount, extra=('\n--- counterexample replayed on the real code ---\n' + extra) if extra else '\n(no counterexample: Verus gives no model and no Kani harness is paired with this obligation)\n')
        tail = '' if has_input else ' no-failing-input-found'
        lines.append('VIOLATION property=%s replay=%s obligation=%s%s' % (prop, p, f['obligation'], tail))
    wall = time.time() - t0
    level = pc.get('level', 'proof')
    ev = {
        'property_id': prop, 'tier': tier if tier in ('quick', 'thorough') else 'quick', 'seed': seed, 'level': level,
        'coverage': {
            'obligations': len(obligations), 'discharged': discharged,
            'checker_cmd': ' ; '.join(c for c in cmds if c) + ((' ; ' + kani_ev['cmd']) if kani_ev else ''),
            'trusted_base': sorted(trusted) + (kani_ev.get('trusted', []) if kani_ev else []),
            'explanation': pc.get('explanation', ''),
            'samples': samples,
            'functions_under_contract': functions,
            'backends': {'verus': backends_verus, 'kani': kani_ev},
            'extraction_rewrites': rewrites,
            'vacuity_probes_run': n_probes,
            'vacuity_probes_that_failed_as_required': n_probes - sum(len(r['vacuous']) for r in results),
            'bounded': (kani_ev or {}).get('bounded', []),
            'not_decided': pc.get('not_decided', []),
            'known_findings_reported': [k['what'] for k, _ in known_hits],
            'undecided': undecided,
            'selftest': selftest_ev,
            'bounded_by_execution': exec_ev,
            'kani_notes': kani_notes,
            'smt_run_ms_total': smt_ms,
        },
        'assumptions': pc.get('assumptions', []) + cfg.get('global_assumptions', []),
        'wall_s': round(wall, 2),
        'violations': vcount,
    }
    # development runs against a scratch copy (VERIF_REPO set) must not overwrite the evidence of /repo
    # runs against scratch copies, and runs on /repo with a seeded change applied (VERIF_SEEDED_RUN), must not touch evidence/
    evdir = 'evidence' if (vx.REPO == '/repo' and not os.environ.get('VERIF_SEEDED_RUN')) else 'evidence_dev'
    os.makedirs(os.path.join(ROOT, evdir), exist_ok=True)
    json.dump(ev, open(os.path.join(ROOT, evdir, prop + '.json'), 'w'), indent=1)
    for l in lines:
        print(l)
    print('%s: %d obligations, %d discharged, %d violations, %d known findings, %d vacuity probes, %.1fs%s' % (
        prop, len(obligations), discharged, vcount, len(seen_k), n_probes, wall, (' UNDECIDED: ' + '; '.join(undecided[:6])) if undecided else ''))
    if vcount:
        return 1
    if undecided:
        return 2
    return 0
