#!/bin/sh
# run every claimed check (quick tier) on /repo in parallel, validate evidence files; used before committing evidence
cd "$(dirname "$0")/.."
ids=$(python3 -c "import json;print(' '.join(c['property_id'] for c in json.load(open('MANIFEST.json'))['checks']))")
rc=0
mkdir -p /var/tmp/verif-runall
for id in $ids; do ( ./check $id --tier ${1:-quick} > /var/tmp/verif-runall/$id.log 2>&1; echo "$id exit=$?" >> /var/tmp/verif-runall/$id.log ) & done
wait
for id in $ids; do tail -2 /var/tmp/verif-runall/$id.log | tr '\n' ' '; echo; grep -q "exit=0" /var/tmp/verif-runall/$id.log || rc=1; done
python3-vt - <<'PY' || rc=1
import json,jsonschema,glob,sys
sch=json.load(open('/root/.vp/EVIDENCE.schema.json'))
bad=0
for c in json.load(open('/verif/MANIFEST.json'))['checks']:
    f='/verif/'+c['evidence_file']
    try:
        e=json.load(open(f)); jsonschema.validate(e,sch)
        if e['level']=='proof' and e['coverage']['obligations']!=e['coverage']['discharged']: print('MISMATCH',f); bad=1
    except Exception as ex:
        print('INVALID',f,ex); bad=1
jsonschema.validate(json.load(open('/verif/MANIFEST.json')), json.load(open('/root/.vp/MANIFEST.schema.json')))
print('evidence ok' if not bad else 'evidence BAD'); sys.exit(bad)
PY
exit $rc
