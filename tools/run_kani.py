"""Kani back end: complete (loop-free, full-domain) and bounded harnesses on the in-place code of a
throw-away copy of /repo, plus counterexample extraction and replay against the real functions.

No hook is committed to /repo: the harness modules of /verif/kani are injected under
`#[cfg(any(kani, test))]` into the scratch copy on every run and the copy is removed afterwards.
"""
import os
import re
import sys
import json
import time
import shutil
import signal
import subprocess

HERE = os.path.dirname(os.path.abspath(__file__))
ROOT = os.path.dirname(HERE)
REPO = os.environ.get('VERIF_REPO', '/repo')
SCRATCH_BASE = os.environ.get('VERIF_SCRATCH', '/var/tmp')


def registry():
    return json.load(open(os.path.join(ROOT, 'kani', 'harnesses.json')))


def make_scratch():
    d = os.path.join(SCRATCH_BASE, 'verif-kani-%d' % os.getpid())
    shutil.rmtree(d, ignore_errors=True)
    os.makedirs(d)
    repo = os.path.join(d, 'repo')
    subprocess.check_call(['rsync', '-a', '--exclude', 'target', '--exclude', '.git', REPO + '/', repo + '/'])
    reg = registry()
    for hfile, src in reg['inject'].items():
        with open(os.path.join(repo, src), 'a') as fh:
            fh.write('\n#[cfg(any(kani, test))]\n#[path = "%s"]\nmod verif_kani;\n' % os.path.join(ROOT, 'kani', hfile))
    return d, repo


def run_cmd(cmd, cwd, timeout):
    env = dict(os.environ, CARGO_NET_OFFLINE='true', RUST_BACKTRACE='0')
    t0 = time.time()
    p = subprocess.Popen(cmd, cwd=cwd, env=env, stdout=subprocess.PIPE, stderr=subprocess.STDOUT, text=True, start_new_session=True)
    try:
        out, _ = p.communicate(timeout=timeout)
        rc = p.returncode
    except subprocess.TimeoutExpired:
        try:
            os.killpg(p.pid, signal.SIGKILL)
        except Exception:
            pass
        out, _ = p.communicate()
        rc = -9
    return rc, out, time.time() - t0


def parse_playback(out):
    """byte vectors of the printed concrete-playback test, in kani::any() order"""
    vals = []
    m = re.search(r'let concrete_vals: Vec<Vec<u8>> = vec!\[(.*?)\];', out, re.S)
    if not m:
        return None
    for vm in re.finditer(r'vec!\[([0-9,\s]*)\]', m.group(1)):
        bs = [int(x) for x in vm.group(1).replace('\n', ' ').split(',') if x.strip()]
        vals.append(bs)
    return vals


def to_literal(bs, ty):
    v = 0
    for i, b in enumerate(bs):
        v |= b << (8 * i)
    if ty == 'bool':
        return 'true' if v else 'false'
    if ty.startswith('i'):
        bits = int(ty[1:])
        if v >= 1 << (bits - 1):
            v -= 1 << bits
    return '%d%s' % (v, ty)


def replay(repo, hname, h, vals):
    """append a #[test] calling the harness's check function with the concrete values; run it on the real code"""
    args = []
    if vals is None or len(vals) < len(h['args']):
        return None, 'could not recover all concrete values from the playback output'
    for bs, ty in zip(vals, h['args']):
        args.append(to_literal(bs, ty))
    for pos, lit in sorted((int(k), v) for k, v in h.get('fixed_args', {}).items()):
        args.insert(pos, lit)
    src = [s for f, s in registry()['inject'].items() if True]
    target_file = None
    for hf, s in registry()['inject'].items():
        if s.endswith(h['mod'] + '.rs'):
            target_file = os.path.join(repo, s)
    test = '\n#[cfg(test)]\nmod verif_replay_%s {\n    #[test]\n    fn replay() {\n        super::verif_kani::%s(%s);\n    }\n}\n' % (hname, h['check'], ', '.join(args))
    with open(target_file, 'a') as fh:
        fh.write(test)
    rc, out, wall = run_cmd(['cargo', 'test', '--offline', '--lib', 'verif_replay_%s' % hname, '--', '--nocapture', '--test-threads', '1'], repo, 600)
    tail = '\n'.join(l for l in out.split('\n') if re.search(r'panicked|assertion|test result|replay|left:|right:|overflow|FAILED|error', l))[-3000:]
    call = 'verif_kani::%s(%s)   // = the real %s called with Kani\'s counterexample' % (h['check'], ', '.join(args), ', '.join(h['targets']))
    return (rc != 0), 'replay test: %s\ncargo test exit code %d (non-zero = the real code violates the assertion with these inputs)\n%s' % (call, rc, tail)


def run(harness_names, prop, tier, per_harness_timeout=None):
    reg = registry()
    hs = {n: reg['harnesses'][n] for n in harness_names if n in reg['harnesses']}
    res = {'harnesses': [], 'machinery': [], 'evidence': {'cmd': '', 'harnesses': [], 'bounded': [], 'trusted': []}}
    for n in harness_names:
        if n not in reg['harnesses']:
            res['machinery'].append('harness %s not in kani/harnesses.json' % n)
    if not hs:
        return res
    tmo = per_harness_timeout or (120 if tier == 'quick' else 600)
    t0 = time.time()
    scratch, repo = make_scratch()
    try:
        cmd = ['cargo', 'kani', '-Z', 'function-contracts', '-Z', 'stubbing', '-Z', 'unstable-options', '--harness-timeout', '%ds' % tmo,
               '-j', str(min(8, len(hs))), '--output-format', 'terse']
        for n in hs:
            cmd += ['--harness', n]
        res['evidence']['cmd'] = '(scratch copy of /repo with kani/*.rs injected) ' + ' '.join(cmd)
        rc, out, wall = run_cmd(cmd, repo, tmo * max(1, (len(hs) + 7) // 8) + 600)
        if 'Manual Harness Summary' not in out and 'Complete -' not in out:
            res['machinery'].append('cargo kani did not complete: rc=%s: %s' % (rc, out[-1500:]))
            return res
        failed = set(re.findall(r'Verification failed for - \S*?::(\w+)\s', out + '\n'))
        m = re.search(r'Complete - (\d+) successfully verified harnesses, (\d+) failures, (\d+) total', out)
        if not m or int(m.group(3)) != len(hs):
            res['machinery'].append('kani ran %s harnesses, expected %d' % (m.group(3) if m else '?', len(hs)))
        for n, h in hs.items():
            entry = {'name': n, 'target': ', '.join(h['targets']), 'what': h['what'], 'bounded': h.get('bounded'), 'status': 'SUCCESSFUL' if n not in failed else 'FAILED'}
            if n in failed:
                # re-run alone for details and a counterexample
                rc2, out2, w2 = run_cmd(['cargo', 'kani', '-Z', 'function-contracts', '-Z', 'stubbing', '-Z', 'unstable-options', '-Z', 'concrete-playback',
                                         '--harness-timeout', '%ds' % tmo, '--concrete-playback=print', '--harness', n], repo, tmo + 300)
                if 'timed out' in out2 or rc2 == -9:
                    entry['status'] = 'TIMEOUT'
                elif 'VERIFICATION:- FAILED' in out2:
                    entry['failed_checks'] = re.findall(r'Failed Checks: (.*)', out2)[:8]
                    entry['output_tail'] = '\n'.join(out2.split('\n')[-60:])
                    if any('not currently supported' in c or 'unwinding assertion' in c for c in entry['failed_checks']) and not any('assertion failed' in c or 'overflow' in c for c in entry['failed_checks']):
                        entry['status'] = 'UNSUPPORTED'
                    else:
                        vals = parse_playback(out2)
                        entry['counterexample'] = None if vals is None else ', '.join(to_literal(b, t) for b, t in zip(vals, h['args']))
                        ok, txt = replay(repo, n, h, vals)
                        entry['replay'] = txt
                        entry['replayed_on_real_code'] = ok
                elif 'VERIFICATION:- SUCCESSFUL' in out2:
                    entry['status'] = 'SUCCESSFUL'
                else:
                    entry['status'] = 'ERROR'
                    entry['output_tail'] = out2[-1500:]
            res['harnesses'].append(entry)
            res['evidence']['harnesses'].append({k: entry.get(k) for k in ('name', 'status', 'target', 'bounded', 'what', 'counterexample')})
            if h.get('bounded'):
                res['evidence']['bounded'].append('%s: %s' % (n, h['bounded']))
        res['evidence']['wall_s'] = round(time.time() - t0, 1)
        res['evidence']['trusted'] = ['kani: CBMC + SAT solver; harness modules kani/*.rs; stub of current_time_millis where a harness lists it']
    finally:
        shutil.rmtree(scratch, ignore_errors=True)
    return res


def _fail_lines(o):
    ls = o.split('\n')
    keep = []
    for k, l in enumerate(ls):
        if re.search(r'panicked|assert|FAILED|error', l):
            keep.append(l)
            if 'panicked' in l and k + 1 < len(ls):
                keep.append(ls[k + 1])      # the assertion message (the failing case) is on the next line
    return '\n'.join(keep)[-1500:]


def run_exec(names):
    """bounded stand-ins by exhaustive execution (never counted as proved): a #[test] per entry calls the
    enumerating function of the harness module on the real code in a scratch copy"""
    reg = registry()
    todo = {n: reg.get('exec_checks', {})[n] for n in names if n in reg.get('exec_checks', {})}
    out = []
    if not todo:
        return out
    scratch, repo = make_scratch()
    try:
        for n, h in todo.items():
            target_file = [os.path.join(repo, s) for hf, s in reg['inject'].items() if s.endswith(h['mod'] + '.rs')][0]
            with open(target_file, 'a') as fh:
                fh.write('\n#[cfg(test)]\nmod verif_exec_%s {\n    #[test]\n    fn run() {\n        let n = super::verif_kani::%s();\n        println!("VERIF_EXEC_COUNT {}", n);\n    }\n}\n' % (n, n))
            rc, o, wall = run_cmd(['cargo', 'test', '--offline', '--lib', 'verif_exec_%s' % n, '--', '--nocapture', '--test-threads', '1'], repo, 1800)
            m = re.search(r'VERIF_EXEC_COUNT (\d+)', o)
            out.append({'name': n, 'status': 'SUCCESSFUL' if rc == 0 and m else 'FAILED', 'cases': int(m.group(1)) if m else 0, 'bounded': h['bounded'], 'what': h['what'],
                        'target': ', '.join(h['targets']), 'wall_s': round(wall, 1),
                        'output_tail': '' if rc == 0 else _fail_lines(o)})
    finally:
        shutil.rmtree(scratch, ignore_errors=True)
    return out


if __name__ == '__main__':
    names = sys.argv[1:] or list(registry()['harnesses'])
    r = run(names, 'dev', 'quick')
    for h in r['harnesses']:
        print(h['name'], h['status'], h.get('counterexample', ''), h.get('failed_checks', ''))
        if h.get('replay'):
            print(h['replay'])
    print(r['machinery'], r['evidence'].get('wall_s'))
