"""Comment/string-aware scanner for Rust source text.

Used by the extractor to locate items *by name* in /repo/src/*.rs and to copy their text
unchanged.  Nothing here interprets Rust beyond: comments, string/char/raw-string literals,
lifetimes, and bracket matching.
"""
import re


class ScanError(Exception):
    pass


def code_mask(src):
    """Return a bytearray m with m[i]=1 where src[i] is code (not comment / literal body)."""
    n = len(src)
    m = bytearray(n)
    i = 0
    while i < n:
        c = src[i]
        if c == '/' and i + 1 < n and src[i + 1] == '/':
            j = src.find('\n', i)
            if j < 0:
                j = n
            i = j
            continue
        if c == '/' and i + 1 < n and src[i + 1] == '*':
            depth = 1
            j = i + 2
            while j < n and depth > 0:
                if src.startswith('/*', j):
                    depth += 1
                    j += 2
                elif src.startswith('*/', j):
                    depth -= 1
                    j += 2
                else:
                    j += 1
            i = j
            continue
        if c == '"':
            m[i] = 1
            j = i + 1
            while j < n and src[j] != '"':
                if src[j] == '\\':
                    j += 1
                j += 1
            if j < n:
                m[j] = 1
            i = j + 1
            continue
        if c == 'r' and i + 1 < n and src[i + 1] in '#"' and (i == 0 or not (src[i - 1].isalnum() or src[i - 1] == '_')):
            j = i + 1
            hashes = 0
            while j < n and src[j] == '#':
                hashes += 1
                j += 1
            if j < n and src[j] == '"':
                end = src.find('"' + '#' * hashes, j + 1)
                if end < 0:
                    raise ScanError('unterminated raw string')
                m[i] = 1
                i = end + 1 + hashes
                continue
        if c == 'b' and i + 1 < n and src[i + 1] in '"\'' and (i == 0 or not (src[i - 1].isalnum() or src[i - 1] == '_')):
            m[i] = 1
            i += 1
            continue
        if c == "'":
            # char literal or lifetime
            if i + 2 < n and src[i + 1] == '\\':
                j = src.find("'", i + 3)
                m[i] = 1
                if j < 0:
                    raise ScanError('unterminated char literal')
                m[j] = 1
                i = j + 1
                continue
            if i + 2 < n and src[i + 2] == "'":
                m[i] = 1
                m[i + 2] = 1
                i += 3
                continue
            # multi-byte char literal like 'é' is 1 python char; handled above. Else a lifetime.
            m[i] = 1
            i += 1
            continue
        m[i] = 1
        i += 1
    return m


OPEN = {'{': '}', '(': ')', '[': ']'}
CLOSE = {'}': '{', ')': '(', ']': '['}


def match_close(src, mask, i):
    """src[i] is an opening bracket in code; return index of its matching close."""
    stack = []
    n = len(src)
    j = i
    while j < n:
        if mask[j]:
            c = src[j]
            if c in OPEN and not _is_literal_quote(c):
                stack.append(c)
            elif c in CLOSE:
                if not stack or stack[-1] != CLOSE[c]:
                    raise ScanError('bracket mismatch at %d' % j)
                stack.pop()
                if not stack:
                    return j
        j += 1
    raise ScanError('unmatched bracket at %d' % i)


def _is_literal_quote(c):
    return False


def depth_at(src, mask, upto):
    d = 0
    for j in range(upto):
        if mask[j]:
            if src[j] == '{':
                d += 1
            elif src[j] == '}':
                d -= 1
    return d


def line_of(src, idx):
    return src.count('\n', 0, idx) + 1


def find_code(src, mask, pattern, start=0, end=None):
    """Yield regex matches of `pattern` whose first char is in code."""
    end = len(src) if end is None else end
    for mt in re.finditer(pattern, src[:end]):
        if mt.start() >= start and mask[mt.start()]:
            yield mt


def item_start_with_attrs(src, mask, idx):
    """Walk backwards from `idx` (an item keyword) over single-line attribute, doc and comment lines."""
    start = src.rfind('\n', 0, idx) + 1
    while start > 0:
        pe = start - 1
        ps = src.rfind('\n', 0, pe) + 1
        line = src[ps:pe].strip()
        if (line.startswith('#[') and line.endswith(']')) or line.startswith('//'):
            start = ps
            continue
        break
    return start


class Block:
    def __init__(self, header, hstart, bopen, bclose):
        self.header = header      # normalised header text, e.g. "impl DnsRecordExt for DnsTxt"
        self.hstart = hstart      # index of 'impl'/'trait'
        self.bopen = bopen        # index of '{'
        self.bclose = bclose      # index of '}'


def norm_ws(s):
    return re.sub(r'\s+', ' ', s).strip()


def top_blocks(src, mask):
    """impl / trait blocks at brace depth 0."""
    out = []
    depth = 0
    i = 0
    n = len(src)
    kw = re.compile(r'\b(impl|trait)\b')
    while i < n:
        if not mask[i]:
            i += 1
            continue
        c = src[i]
        if c == '{':
            depth += 1
            i += 1
            continue
        if c == '}':
            depth -= 1
            i += 1
            continue
        if depth == 0 and (c == 'i' or c == 't'):
            mt = kw.match(src, i)
            if mt and (i == 0 or not (src[i - 1].isalnum() or src[i - 1] == '_')):
                # header runs to the first '{' or ';' in code
                j = mt.end()
                while j < n and not (mask[j] and src[j] in '{;'):
                    j += 1
                if j < n and src[j] == '{':
                    close = match_close(src, mask, j)
                    hdr = norm_ws(src[i:j])
                    out.append(Block(hdr, i, j, close))
                    i = close + 1
                    continue
                i = j + 1
                continue
        i += 1
    return out


def find_fn_in(src, mask, name, lo, hi, base_depth_open=None):
    """Find `fn name` directly inside the region (lo, hi) at relative brace depth 0.
    Returns (item_start, sig_start, body_open, body_close) or None.  body_open is None for a
    declaration without body (trait method)."""
    pat = re.compile(r'\bfn\s+' + re.escape(name) + r'\b')
    depth = 0
    i = lo
    while i < hi:
        if not mask[i]:
            i += 1
            continue
        c = src[i]
        if c == '{':
            depth += 1
        elif c == '}':
            depth -= 1
        elif depth == 0 and c == 'f':
            mt = pat.match(src, i)
            if mt and not (src[i - 1].isalnum() or src[i - 1] == '_'):
                # find body '{' or ';' at paren depth 0
                j = mt.end()
                pd = 0
                while j < hi:
                    if mask[j]:
                        ch = src[j]
                        if ch in '([':
                            pd += 1
                        elif ch in ')]':
                            pd -= 1
                        elif pd == 0 and ch in '{;':
                            break
                    j += 1
                ls = src.rfind('\n', 0, i) + 1
                istart = item_start_with_attrs(src, mask, i)
                if src[j] == ';':
                    return (istart, ls, None, j)
                close = match_close(src, mask, j)
                return (istart, ls, j, close)
        i += 1
    return None


def find_top_item(src, mask, kind, name):
    """kind in const/static/struct/enum/type/fn/macro_rules ; top-level (depth 0).  Returns (start, end)."""
    if kind == 'fn':
        r = find_fn_in(src, mask, name, 0, len(src))
        if r is None:
            return None
        return (r[0], r[3] + 1)
    pat = re.compile(r'\b' + kind + r'\s+' + re.escape(name) + r'\b')
    depth = 0
    i = 0
    n = len(src)
    while i < n:
        if not mask[i]:
            i += 1
            continue
        c = src[i]
        if c == '{':
            depth += 1
        elif c == '}':
            depth -= 1
        elif depth == 0 and c == kind[0]:
            mt = pat.match(src, i)
            if mt and (i == 0 or not (src[i - 1].isalnum() or src[i - 1] == '_')):
                j = mt.end()
                pd = 0
                while j < n:
                    if mask[j]:
                        ch = src[j]
                        if ch in '([':
                            pd += 1
                        elif ch in ')]':
                            pd -= 1
                        elif pd == 0 and ch in '{;':
                            break
                    j += 1
                istart = item_start_with_attrs(src, mask, i)
                if src[j] == ';':
                    return (istart, j + 1)
                close = match_close(src, mask, j)
                # tuple struct `struct X(..);` handled by ';' above
                return (istart, close + 1)
        i += 1
    return None


LOOP_KW = re.compile(r'\b(for|while|loop)\b')


def find_loops(text, mask):
    """Loops in textual order inside a function text.  Returns list of (kw_index, body_open_index)."""
    out = []
    for mt in LOOP_KW.finditer(text):
        i = mt.start()
        if not mask[i]:
            continue
        if i > 0 and (text[i - 1].isalnum() or text[i - 1] == '_'):
            continue
        kw = mt.group(1)
        if kw == 'for':
            # exclude `for<'a>` HRTB and `impl X for Y`
            k = mt.end()
            while k < len(text) and text[k] == ' ':
                k += 1
            if k < len(text) and text[k] == '<':
                continue
            # must be followed eventually by ' in '
        # header until '{' at paren depth 0
        j = mt.end()
        pd = 0
        ok = False
        while j < len(text):
            if mask[j]:
                ch = text[j]
                if ch in '([':
                    pd += 1
                elif ch in ')]':
                    pd -= 1
                elif pd == 0 and ch == '{':
                    ok = True
                    break
                elif pd == 0 and ch == ';':
                    break
            j += 1
        if not ok:
            continue
        if kw == 'for' and not re.search(r'\bin\b', text[mt.end():j]):
            continue
        out.append((i, j))
    return out
