#!/bin/bash
# usage: seedcheck.sh <seed-id> <worktree> <diff> <demo> <placement: append:src/x.rs | tests/NAME.rs> <test-filter> <props...>
# 1. confirm in the scratch worktree: builds + existing suite passes with the change; demo fails with, passes without
# 2. apply to /repo, run the given property checks, restore /repo
set -u
id=$1; wt=$2; diff=$3; demo=$4; place=$5; filter=$6; shift 6; props="$@"
out=/verif/seeded/$id; mkdir -p $out; cp $diff $out/patch.diff; cp $demo $out/$(basename $demo)
log=$out/confirm.log; : > $log
cd $wt || exit 3
export CARGO_TARGET_DIR=$wt/target RUST_BACKTRACE=0
git checkout -q -- . ; git clean -fdq tests src 2>/dev/null
place_demo() { case $place in append:*) cat $demo >> ${place#append:};; *) cp $demo $place;; esac; }
run_demo() { case $place in append:*) cargo test --offline --lib "$filter" -- --test-threads 1;; *) cargo test --offline --test $(basename $place .rs) -- --test-threads 1;; esac; }
echo "== with change: build + existing suite" >> $log
git apply $diff || { echo "APPLY FAILED" >> $log; exit 3; }
cargo build --offline >> $log 2>&1 || echo "BUILD FAILED" >> $log
cargo test --workspace --no-fail-fast --offline 2>&1 | grep -E "^test result|FAILED|failed" >> $log
echo "== with change: demo" >> $log
place_demo; run_demo > $out/demo_with_change.out 2>&1; echo "demo exit with change: $?" >> $log
git checkout -q -- . ; git clean -fdq tests src 2>/dev/null
echo "== without change: demo" >> $log
place_demo; run_demo > $out/demo_without_change.out 2>&1; echo "demo exit without change: $?" >> $log
git checkout -q -- . ; git clean -fdq tests src 2>/dev/null
echo "== checks on /repo with the change applied" >> $log
cd /repo && git apply $diff || { echo "APPLY TO /repo FAILED" >> $log; exit 3; }
for p in $props; do ( cd /verif && VERIF_SEEDED_RUN=1 ./check $p --tier quick 2>&1 | cut -c1-400 > $out/check_$p.out; echo "check $p exit=${PIPESTATUS[0]}" >> $log ); done
git -C /repo checkout -- .
cat $log
