#!/usr/bin/env python3
"""write seeded/<id>/meta.json from the confirm log + a short description given on the command line
usage: seedmeta.py <id> <property> <demo placement> <needs...> -- <what the change is>"""
import sys, json, os, re
if sys.argv[1] == '--refresh':
    sid = sys.argv[2]
    old = json.load(open('/verif/seeded/%s/meta.json' % sid))
    prop, place, needs, what = old['breaks_property'], old['demonstration']['placement'], old['needs_to_manifest'], old['what']
else:
    sid, prop, place = sys.argv[1:4]
    rest = ' '.join(sys.argv[4:])
    needs, what = rest.split(' -- ', 1)
d = '/verif/seeded/' + sid
log = open(d + '/confirm.log').read()
checks = {}
for m in re.finditer(r'check (\w+) exit=(\d+)', log):
    out = open('%s/check_%s.out' % (d, m.group(1))).read().strip().split('\n')
    checks[m.group(1)] = {'exit': int(m.group(2)), 'violations': [re.sub(r'\s+(no-failing-input-found|counterexample=.*)$', '', l.split(' obligation=')[1]).strip() for l in out if l.startswith('VIOLATION')], 'summary': out[-1][:300]}
suite = re.findall(r'^test result: (\w+)\. (\d+) passed; (\d+) failed', log, re.M)
meta = {
 'id': sid, 'breaks_property': prop, 'what': what, 'needs_to_manifest': needs,
 'produced_by': 'independent sub-agent given only the property text and a scratch worktree',
 'demonstration': {'file': [f for f in os.listdir(d) if f.startswith('demo') and f.endswith('.rs')], 'placement': place,
                   'fails_with_change': 'demo exit with change: 101' in log, 'passes_without_change': 'demo exit without change: 0' in log},
 'existing_suite_with_change': [{'result': r, 'passed': int(p), 'failed': int(f)} for r, p, f in suite],
 'what_i_ran': 'tools/seedcheck.sh: apply in scratch worktree, cargo build + full suite, demo with/without change; git -C /repo apply; ./check <prop> --tier quick; git -C /repo checkout -- .',
 'checks': checks,
 'detected': any(c['exit'] == 1 for c in checks.values()),
 'detected_only_after_strengthening': ('re-check after strengthening' in log) and any(c['exit'] == 1 for c in checks.values()),
}
json.dump(meta, open(d + '/meta.json', 'w'), indent=1)
print(sid, 'detected' if meta['detected'] else 'MISSED', {k: v['violations'] for k, v in checks.items()})
