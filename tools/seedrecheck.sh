#!/bin/bash
# usage: seedrecheck.sh <seed-id> <props...>   re-run the checks on /repo with the kept seed applied (after the checks were strengthened)
set -u
id=$1; shift; props="$@"
out=/verif/seeded/$id; log=$out/confirm.log
[ -z "$(git -C /repo status --porcelain)" ] || { echo "/repo not clean"; exit 3; }
echo "== re-check after strengthening the checks ($(date -u +%F), /verif $(git -C /verif rev-parse --short HEAD), /repo $(git -C /repo rev-parse --short HEAD))" >> $log
cd /repo && git apply $out/patch.diff || { echo "APPLY TO /repo FAILED" >> $log; exit 3; }
for p in $props; do ( cd /verif && VERIF_SEEDED_RUN=1 ./check $p --tier ${VERIF_SEED_TIER:-quick} 2>&1 | cut -c1-400 > $out/check_$p.out; echo "check $p exit=${PIPESTATUS[0]}" >> $log ); done
git -C /repo checkout -- .
python3 /verif/tools/seedmeta.py --refresh $id
