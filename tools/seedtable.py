#!/usr/bin/env python3
"""print the markdown table of seeded changes for DESIGN.md section 10"""
import json, os
d='/verif/seeded'
print('| seed | breaks | change (needs) | detected by | ')
print('|---|---|---|---|')
for sid in sorted(os.listdir(d)):
    mp=os.path.join(d,sid,'meta.json')
    if not os.path.exists(mp): continue
    m=json.load(open(mp))
    det=[]
    for p,c in m['checks'].items():
        if c['exit']==1: det.append('%s: %s' % (p, ', '.join('`%s`'%v for v in c['violations'][:3])))
        elif c['exit']==2: det.append('%s: exit 2 (undecided)' % p)
    print('| %s | %s | %s *(%s)* | %s |' % (sid, m['breaks_property'], m['what'], m['needs_to_manifest'], '; '.join(det) if det else '**missed** — ' + m.get('why_missed','outside the functions under contract')))
