#!/usr/bin/env python3
"""Mutation regression of the checks themselves (thorough tier).

mutants/list.json: single-edit property-breaking changes (each once made a named obligation fail) and a few
*harmless* edits.  seeded/<id>/patch.diff: the changes produced by independent sub-agents that a check detected.
Each is applied to a scratch copy of /repo's src (never to /repo); the unit is re-verified there.
  killed    : at least one obligation tagged with the property fails (and, if given, its name contains `expect`)
  survived  : nothing fails -> the contracts no longer pin that behaviour down           -> exit 2 for the property
  harmless  : must still verify; a failure is a false alarm of the machinery              -> exit 2
  undecided : extraction / front-end error on the mutant (the edit no longer applies, …)  -> reported, not fatal
"""
import os
import re
import sys
import json
import shutil
import subprocess
import concurrent.futures as cf

HERE = os.path.dirname(os.path.abspath(__file__))
ROOT = os.path.dirname(HERE)
REPO = os.environ.get('VERIF_REPO', '/repo')
SCRATCH = os.environ.get('VERIF_SCRATCH', '/var/tmp')


def run_mutant(m, base):
    d = os.path.join(base, m['id'])
    os.makedirs(os.path.join(d, 'src'))
    for f in os.listdir(os.path.join(REPO, 'src')):
        shutil.copy(os.path.join(REPO, 'src', f), os.path.join(d, 'src', f))
    if m.get('patch'):
        p = subprocess.run(['patch', '-p1', '-s', '-i', m['patch']], cwd=d, capture_output=True, text=True)
        applied = p.returncode == 0
    else:
        target = os.path.join(d, 'src', m['file'])
        before = open(target).read()
        subprocess.run(['sed', '-i', m['sed'], target])
        applied = open(target).read() != before
    if not applied:
        return dict(m, status='undecided', why='edit does not apply to the current source')
    env = dict(os.environ, VERIF_REPO=d)
    fails = []
    mach = False
    for unit in m['unit'].split(','):
        p = subprocess.run([os.path.join(ROOT, 'check'), '--unit', unit], env=env, capture_output=True, text=True)
        for l in p.stdout.split('\n'):
            mm = re.match(r"\s+FAIL (.+?) props=\[([^\]]*)\] src=\S+ detail=(.*?) :: ", l)
            if mm:
                fails.append((mm.group(1), [x.strip(" '") for x in mm.group(2).split(',') if x.strip()], mm.group(3)))
            if l.strip().startswith('MACHINERY') or 'VACUOUS' in l:
                mach = True
    shutil.rmtree(d, ignore_errors=True)
    if mach and not fails:
        return dict(m, status='undecided', why='extraction/front-end error on the mutant')
    return dict(m, status='judged', fails=fails)


def seeded_mutants():
    out = []
    sd = os.path.join(ROOT, 'seeded')
    unit_of = json.load(open(os.path.join(ROOT, 'contracts', 'properties.json')))['claimed']
    for sid in sorted(os.listdir(sd)) if os.path.isdir(sd) else []:
        mp = os.path.join(sd, sid, 'meta.json')
        if not os.path.exists(mp):
            continue
        meta = json.load(open(mp))
        if not meta.get('detected'):
            continue
        for prop, c in meta['checks'].items():
            if c['exit'] == 1 and prop in unit_of and prop == meta.get('breaks_property'):
                names = [v for v in c['violations'] if not v.startswith('kani:') and not v.startswith('exec:')]
                if not names:
                    continue
                out.append({'id': 'seed-%s-%s' % (sid, prop), 'props': [prop], 'unit': ','.join(unit_of[prop]['units']),
                            'patch': os.path.join(sd, sid, 'patch.diff'), 'expect': names[0].split('.')[0]})
    return out


def run(prop=None):
    ms = json.load(open(os.path.join(ROOT, 'mutants', 'list.json'))) + seeded_mutants()
    if prop:
        ms = [m for m in ms if prop in m['props']]
    # obligations that fail on the unmutated tree (listed known findings) are not evidence for a mutant
    base_fail = set()
    for unit in sorted(set(u for m in ms for u in m['unit'].split(','))):
        p = subprocess.run([os.path.join(ROOT, 'check'), '--unit', unit], capture_output=True, text=True)
        for l in p.stdout.split('\n'):
            mm = re.match(r"\s+FAIL (.+?) props=\[([^\]]*)\] src=\S+ detail=(.*?) :: ", l)
            if mm:
                base_fail.add((mm.group(1), mm.group(3)))
    base = os.path.join(SCRATCH, 'verif-selftest-%d' % os.getpid())
    shutil.rmtree(base, ignore_errors=True)
    os.makedirs(base)
    try:
        with cf.ThreadPoolExecutor(6) as ex:
            res = list(ex.map(lambda m: run_mutant(m, base), ms))
    finally:
        shutil.rmtree(base, ignore_errors=True)
    summary = {'killed': [], 'survived': [], 'false_alarm': [], 'harmless_ok': [], 'undecided': []}
    for r in res:
        if r['status'] == 'undecided':
            summary['undecided'].append({'id': r['id'], 'why': r['why']})
            continue
        rel = [f for f in r['fails'] if (prop is None or prop in f[1]) and (f[0], f[2]) not in base_fail]
        if r.get('harmless'):
            (summary['false_alarm'] if rel else summary['harmless_ok']).append({'id': r['id'], 'fails': [f[0] for f in rel]})
        elif rel and (not r.get('expect') or any(r['expect'] in f[0] for f in rel)):
            summary['killed'].append({'id': r['id'], 'by': sorted(set(f[0] for f in rel))[:4]})
        else:
            summary['survived'].append({'id': r['id'], 'expected': r.get('expect'), 'fails': [f[0] for f in rel]})
    return summary


if __name__ == '__main__':
    s = run(sys.argv[1] if len(sys.argv) > 1 else None)
    for k, v in s.items():
        print(k, len(v))
        for x in v:
            if k in ('survived', 'false_alarm', 'undecided'):
                print('   ', x)
    sys.exit(0 if not s['survived'] and not s['false_alarm'] else 2)
