"""Parser for the contract sidecars  contracts/<unit>.vspec.

Format (line oriented; '@' directives start in column 0):

  @unit NAME
  @crate_attrs / @uses / @prelude / @probes   ... @end      verbatim text blocks
  @rewrite_call `REGEX` => `TEMPLATE`                      R20: every call whose callee text matches REGEX (the match ends right before `(`);
                                                           TEMPLATE may use the regex groups and $ARGS (the argument text, brackets matched)
  @include FILE                                             splice prelude/FILE into the prelude
  @copy FILE KIND NAME [as verbatim|fields-pub]             copy const/struct/enum/type/macro item
  @trait FILE NAME ... @end                                 trait text; a line '//@defaults' marks
                                                            where extracted default methods go
  @rewrite `from` => `to`                                   unit-wide literal rewrite (logged)
  @fn FILE ADDRESS                                          ADDRESS: Type::name | Trait for Type::name
                                                                     | trait Trait::name | ::name
    @props C01 C15
    @sig `regex`            the function's signature in /repo must match (drift -> exit 2)
    @optional               a helper that a change may inline away: when the function is absent nothing is emitted for it
                            (its obligations then count as 'no longer generated' = undecided, unless a caller's obligation fails)
    @rewrite `from` => `to` function-local literal rewrite (logged)
    @requires / @ensures    clauses:  [id | props] expr   (continuation lines indented)
    @decreases EXPR         function-level decreases (recursive fns)
    @loop N [`header-regex`]
      @iter NAME            for-loops: name the ghost iterator (for x in NAME: expr)
      @invariant            clauses
      @invariant_except_break / @ensures_loop  clauses
      @decreases EXPR
    @insert before|after Nth `anchor text`      followed by text lines until next directive;
                                                only proof{..}, assert(..), let ghost .. allowed
    @nobody                 copy the signature only (trait declaration), contract still spliced
  @endfn
"""
import re
import os


def rs_norm(x):
    return ' '.join(x.split())


class SpecError(Exception):
    pass


class Clause:
    def __init__(self, cid, props, text, line):
        self.id = cid
        self.props = props
        self.text = text
        self.line = line


class LoopSpec:
    def __init__(self, ordinal, header_re):
        self.ordinal = ordinal
        self.header_re = header_re
        self.iter = None
        self.invariant = []
        self.invariant_except_break = []
        self.ensures = []
        self.decreases = None


class Insert:
    def __init__(self, where, nth, anchor, line):
        self.where = where
        self.nth = nth
        self.anchor = anchor
        self.text = []
        self.line = line
        self.props = None


class FnSpec:
    def __init__(self, file, address, line):
        self.file = file
        self.address = address
        self.line = line
        self.props = []
        self.sig_re = None
        self.rewrites = []
        self.requires = []
        self.ensures = []
        self.decreases = None
        self.loops = []
        self.inserts = []
        self.nobody = False
        self.optional = False
        self.extra_attrs = []
        self.stub = False
        self.from_unit = None
        self.dropped_requires = []
        self.parse_address()

    def parse_address(self):
        a = self.address.strip()
        m = re.match(r'^trait\s+(\w+)::(\w+)$', a)
        if m:
            self.kind, self.trait, self.type, self.name = 'traitdefault', m.group(1), None, m.group(2)
            return
        m = re.match(r'^(\w+)\s+for\s+(\w+)::(\w+)$', a)
        if m:
            self.kind, self.trait, self.type, self.name = 'traitimpl', m.group(1), m.group(2), m.group(3)
            return
        m = re.match(r'^::(\w+)$', a)
        if m:
            self.kind, self.trait, self.type, self.name = 'free', None, None, m.group(1)
            return
        m = re.match(r'^(\w+)::(\w+)$', a)
        if m:
            self.kind, self.trait, self.type, self.name = 'inherent', None, m.group(1), m.group(2)
            return
        raise SpecError('bad fn address %r (line %d)' % (a, self.line))

    @property
    def qual(self):
        if self.kind == 'free':
            return self.name
        if self.kind == 'traitdefault':
            return '%s::%s' % (self.trait, self.name)
        if self.kind == 'traitimpl':
            return '<%s as %s>::%s' % (self.type, self.trait, self.name)
        return '%s::%s' % (self.type, self.name)


class Unit:
    def __init__(self):
        self.name = None
        self.crate_attrs = []
        self.uses = []
        self.prelude = []
        self.probes = []
        self.items = []      # ('copy', file, kind, name, mode) | ('fn', FnSpec) | ('trait', file, name, text) | ('text', lines)
        self.rewrites = []
        self.path = None
        self.noderive = False
        self.implspec = {}
        self.expects = []

    def fns(self):
        return [it[1] for it in self.items if it[0] == 'fn']


CLAUSE_RE = re.compile(r'^\s*\[([^\]|]+?)(?:\|([^\]]*))?\]\s*(.*)$')
BT = r'`((?:[^`])*)`'


def parse(path, include_dir):
    u = Unit()
    u.path = path
    lines = open(path).read().split('\n')
    i = 0
    cur_fn = None
    cur_list = None     # list receiving clauses
    cur_loop = None
    cur_insert = None

    def flush_insert():
        nonlocal cur_insert
        cur_insert = None

    while i < len(lines):
        ln = lines[i]
        i += 1
        if ln.startswith('@'):
            parts = ln.split(None, 1)
            d = parts[0]
            rest = parts[1].strip() if len(parts) > 1 else ''
            if d in ('@crate_attrs', '@uses', '@prelude', '@probes', '@text'):
                block = []
                while i < len(lines) and lines[i].rstrip() != '@end':
                    block.append(lines[i])
                    i += 1
                i += 1
                if d == '@text':
                    u.items.append(('text', block))
                else:
                    getattr(u, d[1:]).extend(block)
                continue
            if d == '@import':
                # @import UNIT ADDR                          : the function with its whole contract, verified again here
                # @import UNIT ADDR as stub [without ID,ID]  : signature (from the real source) + contract only, body
                #   external: the caller here is checked against the contract that unit UNIT proves; the listed
                #   requires clauses are dropped and reported as assumptions
                p = rest.split(None, 1)
                addr = p[1].strip()
                stub = False
                dropped = []
                ms = re.match(r'^(.*?)\s+as\s+stub(?:\s+without\s+(\S+))?$', addr)
                if ms:
                    addr = ms.group(1).strip()
                    stub = True
                    dropped = ms.group(2).split(',') if ms.group(2) else []
                other = parse(os.path.join(os.path.dirname(path), p[0] + '.vspec'), include_dir)
                hit = [f for f in other.fns() if f.address.strip() == addr]
                if not hit:
                    raise SpecError('%s:%d @import: %s not found in unit %s' % (path, i, addr, p[0]))
                f0 = hit[0]
                if stub:
                    import copy
                    f0 = copy.copy(f0)
                    f0.stub = True
                    f0.from_unit = p[0]
                    f0.dropped_requires = dropped
                    unknown = [d_ for d_ in dropped if d_ not in [c.id for c in f0.requires] + [c.id for c in f0.ensures]]
                    if unknown:
                        raise SpecError('%s:%d @import: no clause %s in %s' % (path, i, unknown, addr))
                    # a dropped ensures is simply not used here (always sound); a dropped requires is an assumption
                    f0.ensures = [c for c in f0.ensures if c.id not in dropped]
                    f0.dropped_requires = [d_ for d_ in dropped if d_ in [c.id for c in f0.requires]]
                    f0.requires = [c for c in f0.requires if c.id not in dropped]
                    f0.loops = []
                    f0.inserts = []
                u.items.append(('fn', f0))
                continue
            if d == '@lemma':
                p = rest.split()
                block = []
                while i < len(lines) and lines[i].rstrip() != '@end':
                    block.append(lines[i])
                    i += 1
                i += 1
                u.items.append(('lemma', p[0], p[1:], block))
                continue
            if d == '@implspec':
                block = []
                while i < len(lines) and lines[i].rstrip() != '@end':
                    block.append(lines[i])
                    i += 1
                i += 1
                u.implspec[rs_norm(rest)] = block
                continue
            if d == '@expect':
                m = re.match(r'^(\S+)\s+' + BT + '$', rest)
                u.expects.append((m.group(1), m.group(2)))
                continue
            if d == '@noderive':
                u.noderive = True
                continue
            if d == '@unit':
                u.name = rest
                continue
            if d == '@include':
                u.prelude.extend(open(include_dir + '/' + rest).read().split('\n'))
                continue
            if d == '@include_item':
                u.items.append(('text', open(include_dir + '/' + rest).read().split('\n')))
                continue
            if d == '@copy':
                p = rest.split()
                mode = p[4] if len(p) > 4 and p[3] == 'as' else 'plain'
                u.items.append(('copy', p[0], p[1], p[2], mode))
                continue
            if d == '@trait':
                p = rest.split()
                block = []
                while i < len(lines) and lines[i].rstrip() != '@end':
                    block.append(lines[i])
                    i += 1
                i += 1
                u.items.append(('trait', p[0], p[1], block))
                continue
            if d == '@fn':
                p = rest.split(None, 1)
                cur_fn = FnSpec(p[0], p[1], i)
                u.items.append(('fn', cur_fn))
                cur_list = None
                cur_loop = None
                flush_insert()
                continue
            if d == '@endfn':
                cur_fn = None
                cur_list = None
                cur_loop = None
                flush_insert()
                continue
            if d == '@rewrite_re':
                m = re.match(r'^' + BT + r'\s*=>\s*' + BT + r'$', rest)
                if not m:
                    raise SpecError('%s:%d bad @rewrite_re' % (path, i))
                tgt = cur_fn.rewrites if cur_fn else u.rewrites
                tgt.append((m.group(1), m.group(2), 're'))
                continue
            if d == '@rewrite_call':
                m = re.match(r'^' + BT + r'\s*=>\s*' + BT + r'$', rest)
                if not m:
                    raise SpecError('%s:%d bad @rewrite_call' % (path, i))
                tgt = cur_fn.rewrites if cur_fn else u.rewrites
                tgt.append((m.group(1), m.group(2), 'call'))
                continue
            if d == '@rewrite':
                m = re.match(r'^' + BT + r'\s*=>\s*' + BT + r'(\s+all)?$', rest)
                if not m:
                    raise SpecError('%s:%d bad @rewrite' % (path, i))
                tgt = cur_fn.rewrites if cur_fn else u.rewrites
                tgt.append((m.group(1), m.group(2), bool(m.group(3))))
                continue
            if cur_fn is None:
                raise SpecError('%s:%d directive %s outside @fn' % (path, i, d))
            flush_insert()
            if d == '@props':
                cur_fn.props = rest.split()
            elif d == '@sig':
                m = re.match(r'^' + BT + '$', rest)
                cur_fn.sig_re = m.group(1)
            elif d == '@nobody':
                cur_fn.nobody = True
            elif d == '@optional':
                cur_fn.optional = True
            elif d == '@attr':
                cur_fn.extra_attrs.append(rest)
            elif d == '@requires':
                cur_list = cur_fn.requires
                cur_loop = None
            elif d == '@ensures':
                cur_list = cur_fn.ensures
                cur_loop = None
            elif d == '@decreases':
                if cur_loop is not None:
                    cur_loop.decreases = rest
                else:
                    cur_fn.decreases = rest
                cur_list = None
            elif d == '@loop':
                m = re.match(r'^(\d+)(?:\s+' + BT + ')?$', rest)
                if not m:
                    raise SpecError('%s:%d bad @loop' % (path, i))
                cur_loop = LoopSpec(int(m.group(1)), m.group(2))
                cur_fn.loops.append(cur_loop)
                cur_list = None
            elif d == '@iter':
                cur_loop.iter = rest
            elif d == '@invariant':
                cur_list = cur_loop.invariant
            elif d == '@invariant_except_break':
                cur_list = cur_loop.invariant_except_break
            elif d == '@ensures_loop':
                cur_list = cur_loop.ensures
            elif d == '@insert':
                m = re.match(r'^(before|after|inside|start|end)(?:\s+(\d+)\s+' + BT + r')?(?:\s*\|\s*([A-Z0-9 ]+))?$', rest)
                if not m:
                    raise SpecError('%s:%d bad @insert' % (path, i))
                cur_insert = Insert(m.group(1), int(m.group(2) or 1), m.group(3), i)
                cur_insert.props = m.group(4).split() if m.group(4) else None
                cur_fn.inserts.append(cur_insert)
                cur_list = None
            else:
                raise SpecError('%s:%d unknown directive %s' % (path, i, d))
            continue
        if ln.startswith('#') or not ln.strip():
            if cur_insert is not None and ln.strip() == '':
                continue
            continue
        if cur_insert is not None:
            cur_insert.text.append(ln)
            continue
        if cur_list is not None:
            m = CLAUSE_RE.match(ln)
            if m:
                props = m.group(2).split() if m.group(2) else None
                cur_list.append(Clause(m.group(1).strip(), props, m.group(3), i))
            else:
                if not cur_list:
                    raise SpecError('%s:%d continuation without clause' % (path, i))
                cur_list[-1].text += '\n' + ln
            continue
        raise SpecError('%s:%d stray text: %r' % (path, i, ln))
    if u.name is None:
        raise SpecError('%s: missing @unit' % path)
    return u
