#!/usr/bin/env python3
"""Driver: extract -> Verus (pass 1 obligations, pass 2 vacuity probes) -> Kani -> attribute -> report.

  ./check <PROP> [--tier quick|thorough]      decide one property
  ./check --unit NAME [--keep]                run one unit, print obligations (development)
  ./check --update-baseline                   rewrite baseline/obligations.json from this tree
  ./check <PROP> --replay FILE                print a stored replay file and re-run the check

Exit codes: 0 held / 1 violation (VIOLATION line printed) / 2 undecided (machinery needs attention).
"""
import sys
import os
import re
import json
import time
import glob
import shutil
import hashlib
import subprocess
import concurrent.futures as cf

HERE = os.path.dirname(os.path.abspath(__file__))
ROOT = os.path.dirname(HERE)
sys.path.insert(0, HERE)
import vspec   # noqa: E402
import gen     # noqa: E402

REPO = os.environ.get('VERIF_REPO', '/repo')
GEN_DIR = os.path.join(ROOT, 'gen', 'p%d' % os.getpid())   # per process: checks may run concurrently
VERUS = shutil.which('verus') or '/usr/local/bin/verus'

VF_MESSAGES = [
    'postcondition not satisfied', 'precondition not satisfied', 'precondition not met', 'invariant not satisfied',
    'assertion failed', 'possible arithmetic underflow/overflow', 'possible division by zero',
    'decreases not satisfied', 'could not prove termination', 'possible bit shift underflow/overflow',
    'unable to prove', 'failed to prove', 'assertion failure', 'loop invariant', 'cannot prove',
    'possible arithmetic', 'recursive call', 'arithmetic underflow', 'arithmetic overflow',
    'not satisfied', 'fails to satisfy',
]
UNDECIDED_MESSAGES = ['rlimit', 'resource limit', 'timed out', 'timeout', 'canceled']


class Undecided(Exception):
    pass


def all_units():
    out = {}
    for p in sorted(glob.glob(os.path.join(ROOT, 'contracts', '*.vspec'))):
        u = vspec.parse(p, os.path.join(ROOT, 'prelude'))
        out[u.name] = u
    return out


def unit_props(u):
    ps = set()
    for it in u.items:
        if it[0] == 'fn':
            f = it[1]
            ps.update(f.props)
            for lst in [f.requires, f.ensures] + [l.invariant for l in f.loops]:
                for c in lst:
                    if c.props:
                        ps.update(c.props)
        elif it[0] == 'lemma':
            ps.update(it[2])
    return ps


def run_verus(path, extra=()):
    t0 = time.time()
    cmd = [VERUS, os.path.basename(path), '--output-json', '--time', '--error-format=json', '--multiple-errors', '200'] + list(extra)
    p = subprocess.run(cmd, cwd=os.path.dirname(path), capture_output=True, text=True, timeout=1800)
    wall = time.time() - t0
    try:
        js = json.loads(p.stdout) if p.stdout.strip() else {}
    except Exception:
        js = {}
    diags = []
    for l in p.stderr.split('\n'):
        l = l.strip()
        if l.startswith('{'):
            try:
                diags.append(json.loads(l))
            except Exception:
                pass
    return {'rc': p.returncode, 'json': js, 'diags': diags, 'stderr': p.stderr, 'wall': wall, 'cmd': ' '.join(cmd)}


def fn_breakdown(js):
    out = {}
    try:
        for m in js['times-ms']['smt']['smt-run-module-times']:
            for f in m.get('function-breakdown', []):
                out[f['function']] = {'ms': f.get('time', 0), 'rlimit': f.get('rlimit', 0), 'success': f.get('success')}
    except Exception:
        pass
    return out


def classify(msg):
    m = msg.lower()
    for u in UNDECIDED_MESSAGES:
        if u in m:
            return 'undecided'
    for v in VF_MESSAGES:
        if v in m:
            return 'vf'
    return 'other'


def find_decreases_tag(tags, stags, body_t):
    """the `decreases` clause of the loop whose header is at/after the reported line (the span of a
    termination failure starts at the loop keyword; the spliced clauses follow it), else the nearest
    preceding one in the same function"""
    ln = min(s['line_start'] for s, t in stags if t is body_t)
    for k in range(ln - 1, min(len(tags), ln + 60)):
        t = tags[k]
        if t and t.get('fn') == body_t['fn'] and t.get('kind') in ('decreases', 'fn-decreases'):
            return t
        if t and t.get('kind') == 'body' and k > ln - 1:
            break
    for k in range(ln - 1, -1, -1):
        t = tags[k]
        if t and t.get('fn') and t.get('fn') != body_t['fn']:
            return None
        if t and t.get('kind') in ('decreases', 'fn-decreases'):
            return t
    return None


def analyse_pass1(res, tags, meta):
    """Returns (failures, machinery_errors). failure: dict(obligation, fn, props, message, detail, src, rendered)"""
    failures = []
    mach = []
    for d in res['diags']:
        if d.get('level') != 'error':
            continue
        msg = d.get('message', '')
        if msg.startswith('aborting due to'):
            continue
        kind = classify(msg)
        if d.get('code'):
            kind = 'rustc'          # a compiler diagnostic (E0xxx), never a verification verdict
        spans = d.get('spans', [])
        if kind != 'vf' or not spans:
            mach.append({'message': msg, 'rendered': d.get('rendered', '')[:2000], 'kind': kind})
            continue
        prim = [s for s in spans if s.get('is_primary')] + [s for s in spans if not s.get('is_primary')]
        stags = []
        for s in prim:
            ln = s['line_start']
            t = tags[ln - 1] if 0 < ln <= len(tags) else None
            stags.append((s, t or {'kind': 'unknown'}))
        clause_t = next((t for s, t in stags if t.get('clause')), None)
        body_t = next((t for s, t in stags if t.get('kind') in ('body', 'sig')), None) or next((t for s, t in stags if t.get('kind') == 'proof'), None)
        prelude_only = all(t.get('kind') in ('prelude', 'unknown', 'item', 'kw') for s, t in stags)
        rendered = d.get('rendered', '')
        if prelude_only:
            mach.append({'message': 'verification failure inside the environment prelude: ' + msg, 'rendered': rendered[:2000], 'kind': 'prelude'})
            continue
        lmsg = msg.lower()
        f = {'message': msg, 'rendered': rendered, 'src': None, 'construct': None, 'detail': None}
        if body_t is not None and body_t.get('src'):
            f['src'] = '%s:%d' % tuple(body_t['src'])
            sp = next(s for s, t in stags if t is body_t)
            f['construct'] = ' '.join((sp.get('text') or [{}])[0].get('text', '').split())
        if 'precondition not satisfied' in lmsg:
            # obligation of the *caller* at the call site
            caller = body_t['fn'] if body_t else (clause_t['fn'] if clause_t else None)
            if body_t is None and clause_t is not None and clause_t.get('kind') == 'lemma':
                caller = clause_t['fn']
            f['fn'] = caller
            if clause_t and clause_t.get('kind') == 'requires':
                f['detail'] = 'callee precondition ' + clause_t['clause']
            else:
                envp = [t['props'] for s, t in stags if t.get('kind') in ('prelude', 'item') and t.get('props')]
                if envp:
                    f['props_override'] = envp[0]
                envsp = [s for s, t in stags if t.get('kind') in ('prelude', 'item') and s.get('text')]
                txt = ' '.join((envsp[0]['text'][0].get('text', '') if envsp else '').split())
                f['detail'] = 'callee precondition (std/env)' + ((': ' + txt[:160]) if txt else '')
            hint_t = next((t for s_, t in stags if t.get('kind') == 'proof' and t.get('clause')), None)
            if clause_t is not None and clause_t.get('kind') == 'lemma' and body_t is None:
                f['obligation'] = clause_t['clause']
                f['props'] = clause_t.get('props', [])
            elif hint_t is not None and (body_t is None or body_t.get('kind') == 'proof'):
                # a lemma called from an inserted proof block: the failed step belongs to that hint
                f['obligation'] = hint_t['clause']
                f['props'] = hint_t.get('props', [])
                f['fn'] = hint_t['fn']
                rq = [s_ for s_, t in stags if t.get('kind') == 'lemma' and s_.get('text')]
                if rq:
                    f['detail'] = 'lemma precondition: ' + ' '.join(rq[0]['text'][0].get('text', '').split())[:200]
                f.pop('props_override', None)
            else:
                f['obligation'] = '%s.safety' % caller
                f['props'] = None
        elif clause_t is not None and clause_t.get('kind') in ('ensures', 'invariant', 'decreases', 'loop-ensures', 'fn-decreases', 'lemma', 'proof'):
            f['fn'] = clause_t['fn']
            f['obligation'] = clause_t['clause']
            f['props'] = clause_t.get('props', [])
        elif body_t is not None and ('decreases' in lmsg or 'termination' in lmsg) and find_decreases_tag(tags, stags, body_t) is not None:
            dt = find_decreases_tag(tags, stags, body_t)
            f['fn'] = dt['fn']
            f['obligation'] = dt['clause']
            f['props'] = dt.get('props', [])
            f['detail'] = 'termination'
        elif body_t is not None:
            f['fn'] = body_t['fn']
            if body_t.get('kind') == 'proof':
                f['obligation'] = '%s.proof' % body_t['fn']
            else:
                f['obligation'] = '%s.safety' % body_t['fn']
            f['props'] = None
            if body_t.get('ob'):
                f['obligation'] = body_t['ob']
                f['props'] = body_t['props']
            if 'decreases' in lmsg or 'termination' in lmsg:
                f['detail'] = 'termination'
        else:
            mach.append({'message': 'unattributable verification failure: ' + msg, 'rendered': rendered[:2000], 'kind': 'attr'})
            continue
        failures.append(f)
    # fill props for fn-level buckets
    fprops = {fi['fn']: fi['props'] for fi in meta['functions']}
    for lm in meta['lemmas']:
        fprops[lm['name']] = lm['props']
    for f in failures:
        if f.get('props_override'):
            f['props'] = f['props_override']
        elif f['props'] is None:
            f['props'] = fprops.get(f['fn'], [])
    if res['rc'] != 0 and not failures and not mach:
        mach.append({'message': 'verus exited %d without diagnostics' % res['rc'], 'rendered': res['stderr'][-3000:], 'kind': 'rc'})
    vr = res['json'].get('verification-results', {})
    if not vr:
        if not mach:
            mach.append({'message': 'no verification-results in verus output', 'rendered': res['stderr'][-3000:], 'kind': 'rc'})
    elif vr.get('encountered-vir-error'):
        if not mach:
            mach.append({'message': 'verus VIR error', 'rendered': res['stderr'][-3000:], 'kind': 'vir'})
    return failures, mach


def analyse_probe(res, tags, meta):
    """Every probe must FAIL.  Returns (n_probes, vacuous list, machinery errors)."""
    probes = {}
    for i, t in enumerate(tags):
        if t and t.get('kind') == 'probe':
            probes[i + 1] = t['probe']
    failed = set()
    mach = []
    for d in res['diags']:
        if d.get('level') != 'error':
            continue
        msg = d.get('message', '')
        if msg.startswith('aborting due to'):
            continue
        if d.get('code') or classify(msg) == 'undecided' or classify(msg) == 'other':
            mach.append({'message': msg, 'rendered': d.get('rendered', '')[:1500], 'kind': 'probe'})
            continue
        for s in d.get('spans', []):
            if s['line_start'] in probes and 'assertion failed' in msg:
                failed.add(probes[s['line_start']])
    # prelude probes: functions named vxprobe_* must each have at least one failing assertion
    pp = set()
    for i, t in enumerate(tags):
        if t and t.get('kind') == 'prelude-probe':
            pp.add(i + 1)
    names = {}
    cur = None
    lines = res.get('gen_lines') or []
    for ln in sorted(pp):
        txt = lines[ln - 1] if ln - 1 < len(lines) else ''
        m = re.search(r'\bfn\s+(vxprobe_\w+)', txt)
        if m:
            cur = m.group(1)
            names[cur] = [ln, ln]
        elif cur:
            names[cur][1] = ln
    for nm, (a, b) in names.items():
        probes['prelude:' + nm] = nm
        for d in res['diags']:
            if d.get('level') == 'error' and any(a <= s['line_start'] <= b for s in d.get('spans', [])) and classify(d.get('message', '')) == 'vf':
                failed.add(nm)
    vac = sorted(set(probes.values()) - failed)
    if not res['json'].get('verification-results') or res['json'].get('verification-results', {}).get('encountered-vir-error'):
        if not mach:
            mach.append({'message': 'vacuity pass did not reach the SMT stage', 'rendered': res['stderr'][-2000:], 'kind': 'probe'})
    if mach:
        vac = []
    return len(set(probes.values())), vac, mach


def run_unit(u, keep=False, probe_pass=True):
    """Generate + verify a unit.  Returns dict with everything the reporter needs."""
    os.makedirs(GEN_DIR, exist_ok=True)
    r = {'unit': u.name, 'machinery': [], 'failures': [], 'vacuous': [], 'n_probes': 0}
    try:
        text, tags, meta = gen.generate(u, REPO, probe=False)
        ptext, ptags, pmeta = gen.generate(u, REPO, probe=True)
    except (gen.GenError, vspec.SpecError, gen.rs.ScanError, OSError) as e:
        r['machinery'].append({'message': 'extraction failed: %s' % e, 'rendered': '', 'kind': 'extract'})
        r['meta'] = None
        return r
    p1 = os.path.join(GEN_DIR, u.name + '.rs')
    p2 = os.path.join(GEN_DIR, u.name + '__probe.rs')
    open(p1, 'w').write(text)
    open(p2, 'w').write(ptext)
    with cf.ThreadPoolExecutor(2) as ex:
        f1 = ex.submit(run_verus, p1)
        f2 = ex.submit(run_verus, p2) if probe_pass else None
        res1 = f1.result()
        res2 = f2.result() if f2 else None
    r['meta'] = meta
    r['tags'] = tags
    r['res1'] = res1
    fails, mach = analyse_pass1(res1, tags, meta)
    r['failures'] = fails
    r['machinery'].extend(mach)
    r['breakdown'] = fn_breakdown(res1['json'])
    r['verus_results'] = res1['json'].get('verification-results', {})
    r['smt_ms'] = (res1['json'].get('times-ms', {}).get('smt', {}) or {}).get('smt-run', 0)
    r['wall'] = res1['wall']
    r['cmd'] = 'cd %s && %s' % (GEN_DIR, res1['cmd'])
    if res2 is not None:
        res2['gen_lines'] = ptext.split('\n')
        n, vac, pm = analyse_probe(res2, ptags, pmeta)
        r['n_probes'] = n
        r['vacuous'] = vac
        if pm:
            r['machinery'].extend(pm)
        r['probe_wall'] = res2['wall']
    # trusted-base scan of the generated text
    r['trusted'] = trusted_scan(text)
    for st in r['meta'].get('imported_stubs', []):
        r['trusted'].append('imported contract of %s (proved in unit %s)%s' % (st['fn'], st['from_unit'], '; requires dropped (assumed): ' + ','.join(st['dropped_requires']) if st['dropped_requires'] else ''))
    r['gen_sha'] = hashlib.sha256(text.encode()).hexdigest()[:16]
    return r


TRUST_PAT = [
    (r'#\[verifier::external_body\]\s*(?:#\[[^\]]*\]\s*)*(?:pub\s+)?(?:open\s+|closed\s+)?(?:const\s+)?(fn|struct)\s+(\w+)', 'external_body %s %s'),
    (r'assume_specification\s*(?:<[^\[]*>)?\s*\[\s*([^\]]+?)\s*\]', 'assume_specification [%s]'),
    (r'\buninterp\s+spec\s+fn\s+(\w+)', 'uninterp spec fn %s'),
    (r'\b(admit)\s*\(\s*\)', '%s()'),
    (r'\b(assume)\s*\(', '%s(..)'),
    (r'#\[verifier::(exec_allows_no_decreases_clause|external|external_type_specification|external_trait_specification|truncate)\]', 'verifier::%s'),
    (r'\b(vx_any\w*)\s*(?:::<[^>]*>)?\s*\(', 'havoc %s()'),
]


def trusted_scan(text):
    mask = gen.rs.code_mask(text)
    found = {}
    for pat, fmt in TRUST_PAT:
        for m in re.finditer(pat, text):
            if not mask[m.start()]:
                continue
            key = fmt % m.groups()
            found[key] = found.get(key, 0) + 1
    return ['%s%s' % (k, '' if v == 1 else ' (x%d)' % v) for k, v in sorted(found.items())]


def obligations_of(r):
    """All named obligations of a unit run: contract clauses (ensures/invariant/decreases/lemma) and
    one safety bucket + one proof bucket per function with a body."""
    obs = {}
    meta = r['meta']
    for cid, c in meta['clauses'].items():
        if c['kind'] in ('requires', 'assumed'):
            continue
        obs[cid] = {'props': c['props'], 'kind': c['kind'], 'fn': c['fn'], 'text': c['text']}
    for fi in meta['functions']:
        obs[fi['fn'] + '.safety'] = {'props': fi['props'], 'kind': 'safety', 'fn': fi['fn'],
                                     'text': 'no overflow/underflow, indices and slices in range, callee preconditions, asserts, termination of un-contracted loops (%s:%d)' % (fi['file'], fi['line'])}
    return obs


def load_known():
    p = os.path.join(ROOT, 'findings', 'known_findings.json')
    if not os.path.exists(p):
        return []
    return json.load(open(p))


def match_known(f, known, prop):
    for k in known:
        if k.get('status') != 'known':
            continue
        if k.get('property') != prop:
            continue
        if k.get('obligation') != f['obligation']:
            continue
        if k.get('construct') and (f.get('construct') is None or k['construct'] not in f['construct']):
            continue
        if k.get('detail') and (f.get('detail') is None or k['detail'] not in f['detail']):
            continue
        return k
    return None


def load_baseline():
    p = os.path.join(ROOT, 'baseline', 'obligations.json')
    if not os.path.exists(p):
        return None
    return json.load(open(p))


def write_replay(prop, f, unit, idx, extra=''):
    d = os.path.join(ROOT, 'replays')
    os.makedirs(d, exist_ok=True)
    name = '%s-%s-%d.txt' % (prop, re.sub(r'[^A-Za-z0-9_.]+', '_', f['obligation'])[:80], idx)
    p = os.path.join(d, name)
    with open(p, 'w') as fh:
        fh.write('property: %s\nunit: %s\nfailed obligation: %s\nfunction: %s\nsource: %s\nconstruct: %s\ndetail: %s\nverifier message: %s\n\n--- verifier output ---\n%s\n%s' % (
            prop, unit, f['obligation'], f.get('fn'), f.get('src'), f.get('construct'), f.get('detail'), f['message'], f['rendered'], extra))
    return p


def main(argv):
    import argparse
    ap = argparse.ArgumentParser()
    ap.add_argument('prop', nargs='?')
    ap.add_argument('--tier', default=os.environ.get('VERIF_TIER', 'quick'))
    ap.add_argument('--unit')
    ap.add_argument('--update-baseline', action='store_true')
    ap.add_argument('--replay')
    ap.add_argument('--no-kani', action='store_true')
    ap.add_argument('-v', action='store_true')
    a = ap.parse_args(argv)
    seed = int(os.environ.get('VERIF_SEED', '0') or 0)
    units = all_units()
    if a.unit:
        r = run_unit(units[a.unit])
        print_unit(r, verbose=True)
        return 0 if not (r['failures'] or r['machinery'] or r['vacuous']) else 1
    if a.update_baseline:
        import report
        return report.update_baseline(units, run_unit, obligations_of)
    if not a.prop:
        ap.error('property id required')
    import report
    if a.replay:
        print(open(a.replay).read())
    return report.check_property(a.prop, a.tier, seed, units, no_kani=a.no_kani, verbose=a.v)


def print_unit(r, verbose=False):
    print('unit %s: %s' % (r['unit'], r.get('verus_results')))
    for m in r['machinery']:
        print('  MACHINERY: %s\n%s' % (m['message'], m['rendered']))
    for f in r['failures']:
        print('  FAIL %s props=%s src=%s detail=%s :: %s' % (f['obligation'], f['props'], f['src'], f['detail'], f['message']))
        if verbose:
            print(f['rendered'])
    if r['vacuous']:
        print('  VACUOUS probes (did not fail): %s' % r['vacuous'])
    print('  probes: %d, wall %.1fs' % (r['n_probes'], r.get('wall', 0)))


if __name__ == '__main__':
    try:
        rc = main(sys.argv[1:])
    except SystemExit:
        raise
    except BaseException as e:
        # a crash of the machinery (bad sidecar, missing tool, ...) is never a verdict: exit 2, no VIOLATION line
        import traceback
        traceback.print_exc()
        print('UNDECIDED: machinery error: %s: %s' % (type(e).__name__, str(e)[:300]))
        rc = 2
    finally:
        if not os.environ.get('VERIF_KEEP_GEN'):
            shutil.rmtree(GEN_DIR, ignore_errors=True)
    sys.exit(rc)
